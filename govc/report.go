package main

import (
	"encoding/json"
	"fmt"
	"os"
	"path/filepath"
	"runtime"
	"sort"
	"strconv"
	"strings"
)

type FuncSummary struct {
	Name        string `json:"name"`
	File        string `json:"file"`
	Obligations int    `json:"obligations"`
	Discharged  int    `json:"discharged"`
	Loops       int    `json:"loops"`
	Arith       string `json:"arith"`
}

type Report struct {
	Prop        string
	Tier        string
	Seed        int
	Funcs       []FuncSummary
	All         []*Obligation
	Obligations int
	Discharged  int
	Known       int
	Undecided   []string
	SoftOpen    int
	SoftTotal   int
	Violations  int
	SolverS     float64
	SolverMax   float64
	Wall        float64
	Lines       []string
	Fatal       string
	ByKind      map[string]int
	ByBackend   map[string]int
	Assumptions []string
	Notes       []string
	VacRun      int
	VacPass     int
	KnownLines  []string
	Broken      map[string]string // functions whose verification conditions could not be generated
	Bounded     []map[string]interface{}
	Replays     []string
	Slow        []string
}

func runProperty(prop, tier string) *Report {
	return runPropertyRaw(prop, tier, false)
}

func runPropertyRaw(prop, tier string, forBaseline bool) *Report {
	rep := &Report{Prop: prop, Tier: tier, ByKind: map[string]int{}, ByBackend: map[string]int{}}
	if s := os.Getenv("VERIF_SEED"); s != "" {
		rep.Seed, _ = strconv.Atoi(s)
	}
	s, err := loadSession(prop)
	if err != nil {
		rep.Fatal = "cannot load /repo with contracts: " + err.Error()
		// a repository that no longer loads (compile error) is not a property
		// violation by itself; report it as fatal.
		return rep
	}
	defer s.Close()
	ts, missing := s.targets(prop, "")
	var results []*FuncResult
	for _, t := range ts {
		results = append(results, verifyTarget(t))
	}
	timeout := 60
	agree := false
	if tier == "thorough" {
		timeout = 120
		agree = true
	}
	var all []*Obligation
	for _, r := range results {
		// clauses restricted to other properties ([label @Cnn]) are not part of
		// this property's check
		kept := r.Obls[:0:0]
		for _, o := range r.Obls {
			if o.Restricted {
				in := false
				for _, p := range o.Props {
					if p == prop {
						in = true
					}
				}
				if !in {
					continue
				}
			}
			kept = append(kept, o)
		}
		r.Obls = kept
		all = append(all, r.Obls...)
	}
	solveAll(all, solveOpts{timeout: timeout, workers: runtime.NumCPU(), agree: agree})
	rep.All = all

	// known findings and baseline
	var known []KnownFinding
	loadJSON(filepath.Join(verifDir, "known_findings.json"), &known)
	knownOpen := map[string]KnownFinding{}
	for _, k := range known {
		if k.Property == prop && k.Status == "open" {
			knownOpen[k.Obligation] = k
		}
	}
	base := map[string][]string{}
	loadJSON(filepath.Join(verifDir, "baseline", "obligations.json"), &base)
	inBase := map[string]bool{}
	for _, n := range base[prop] {
		inBase[n] = true
	}
	generated := map[string]bool{}
	claimOf := claimName
	violated := map[string][]*Obligation{}
	violatedRes := map[string]*FuncResult{}
	var violatedOrder []string
	assume := map[string]bool{}
	brokenFunc := map[string]string{}
	rep.Broken = brokenFunc
	for _, r := range results {
		fsu := FuncSummary{Name: r.Key, File: r.Pos, Loops: r.Loops, Arith: "int (mathematical integers; machine overflow as soft obligations)"}
		if r.Spec.Arith == "bv" {
			fsu.Arith = "bv (64-bit vectors, IEEE binary64)"
		}
		if r.Err != "" {
			brokenFunc[r.Key] = r.Err
		}
		if len(r.SpecErrs) > 0 {
			brokenFunc[r.Key] = "contract does not resolve against the current source: " + strings.Join(r.SpecErrs, "; ")
		}
		for _, a := range r.Assumed {
			assume[a] = true
		}
		for _, n := range r.Notes {
			rep.Notes = append(rep.Notes, r.Key+": "+n)
		}
		for _, o := range r.Obls {
			generated[claimOf(o.Name)] = true
			rep.SolverS += o.Time
			if o.Time > rep.SolverMax {
				rep.SolverMax = o.Time
			}
			if o.Time > 4 && !o.Vacuity && !o.Soft && o.Status == "discharged" {
				rep.Slow = append(rep.Slow, fmt.Sprintf("%s %.1fs %s", o.Name, o.Time, o.Backend))
			}
			if o.Vacuity {
				rep.VacRun++
				if o.Status == "discharged" {
					rep.VacPass++
				} else if inBase[claimOf(o.Name)] && !forBaseline {
					// the hypotheses on this path have become contradictory or the
					// point unreachable: every proof below it is vacuous
					o.Desc += " (the cover no longer holds: the proofs on this path are vacuous)"
					c := claimOf(o.Name)
					if _, seen := violated[c]; !seen {
						violatedOrder = append(violatedOrder, c)
					}
					violated[c] = append(violated[c], o)
					violatedRes[c] = r
				}
				continue
			}
			if o.Soft {
				rep.SoftTotal++
				if o.Status != "discharged" {
					rep.SoftOpen++
					assume["machine arithmetic treated as mathematical at "+o.Pos+" ("+o.Name+")"] = true
				}
				continue
			}
			fsu.Obligations++
			if _, bad := brokenFunc[r.Key]; bad {
				o.Status = "failed"
			}
			if o.Status == "discharged" {
				fsu.Discharged++
				rep.Obligations++
				rep.Discharged++
				rep.ByKind[o.Kind]++
				rep.ByBackend[o.Backend]++
				continue
			}
			if forBaseline {
				rep.Undecided = append(rep.Undecided, o.Name)
				continue
			}
			k, ok := knownOpen[o.Name]
			if !ok {
				k, ok = knownOpen[claimOf(o.Name)]
			}
			if ok {
				rep.Known++
				rep.Lines = append(rep.Lines, fmt.Sprintf("KNOWN-FINDING: property=%s %s %s", prop, o.Name, k.What))
				rep.KnownLines = append(rep.KnownLines, o.Name+": "+k.What)
				continue
			}
			if inBase[claimOf(o.Name)] {
				rep.Obligations++
				c := claimOf(o.Name)
				if _, seen := violated[c]; !seen {
					violatedOrder = append(violatedOrder, c)
				}
				violated[c] = append(violated[c], o)
				violatedRes[c] = r
				continue
			}
			rep.Undecided = append(rep.Undecided, o.Name)
			rep.Lines = append(rep.Lines, fmt.Sprintf("UNDECIDED property=%s obligation=%s status=%s %s (%s)", prop, o.Name, o.Status, o.Pos, o.Desc))
		}
		rep.Funcs = append(rep.Funcs, fsu)
	}
	for _, c := range violatedOrder {
		rep.Violations++
		path := writeReplay(rep, c, violated[c], violatedRes[c], s)
		suffix := ""
		if !replayHasInput(path) {
			suffix = " no-failing-input-found"
		}
		rep.Lines = append(rep.Lines, fmt.Sprintf("VIOLATION property=%s replay=%s%s", prop, path, suffix))
	}
	if !forBaseline {
		// baseline obligations that were not generated at all
		var lost []string
		for _, n := range base[prop] {
			if !generated[n] {
				lost = append(lost, n)
			}
		}
		for _, m := range missing {
			lost = append(lost, m+" (function under contract no longer exists)")
		}
		if len(lost) > 0 {
			sort.Strings(lost)
			rep.Violations += 1
			path := writeLostReplay(rep, lost, brokenFunc)
			rep.Lines = append(rep.Lines, fmt.Sprintf("VIOLATION property=%s replay=%s no-failing-input-found", prop, path))
		}
		// a known finding whose obligation now discharges or is gone is not an error
	}
	if tier == "thorough" && !forBaseline && rep.Fatal == "" {
		// thorough tier: besides the proof obligations (longer limits, all
		// solvers must agree) the property's witness-search harnesses are run
		// against the real code as a bounded cross-check of the contracts
		// themselves (labelled bounded, never counted as proved).
		var defs []harnessDef
		loadJSON(filepath.Join(verifDir, "replay", "index.json"), &defs)
		for _, d := range defs {
			if d.Property != prop {
				continue
			}
			out, fails := runHarness(d)
			rep.Bounded = append(rep.Bounded, map[string]interface{}{"harness": d.File, "test": d.Test, "package": d.PkgDir,
				"kind": "bounded witness search over a fixed input pool (cross-check, not a proof)", "failing_inputs": fails})
			if len(fails) == 0 {
				continue
			}
			if len(knownOpen) > 0 {
				// the witnesses of an open known finding keep failing until it is repaired
				for _, k := range knownOpen {
					rep.Lines = append(rep.Lines, fmt.Sprintf("KNOWN-FINDING: property=%s harness %s still finds the recorded witness: %s", prop, d.File, k.Witness))
				}
				continue
			}
			rep.Violations++
			path := filepath.Join(replayDir(prop), "harness-"+sanitize(d.PkgDir)+".json")
			m := map[string]interface{}{"property": prop, "kind": "failing input found by the witness-search harness although every obligation discharged",
				"harness": d.File, "failing_inputs": fails, "output_tail": tail(out, 4000), "failing_input_confirmed": true,
				"explanation": "the contracts are too weak to exclude this behaviour (or an assumed contract is wrong): the property is violated on the real code for the listed input"}
			b, _ := json.MarshalIndent(m, "", " ")
			os.WriteFile(path, b, 0o644)
			rep.Lines = append(rep.Lines, fmt.Sprintf("VIOLATION property=%s replay=%s", prop, path))
		}
	}
	if rep.Obligations == 0 && rep.Fatal == "" && !forBaseline && rep.Violations == 0 {
		rep.Fatal = "no obligations were generated for " + prop + " (vacuous check)"
	}
	for a := range assume {
		rep.Assumptions = append(rep.Assumptions, a)
	}
	sort.Strings(rep.Assumptions)
	return rep
}

func replayDir(prop string) string {
	d := filepath.Join(outDir, "replays", prop)
	os.MkdirAll(d, 0o755)
	return d
}

func replayHasInput(path string) bool {
	var m map[string]interface{}
	if loadJSON(path, &m) != nil {
		return false
	}
	v, _ := m["failing_input_confirmed"].(bool)
	return v
}

func writeLostReplay(rep *Report, lost []string, broken map[string]string) string {
	path := filepath.Join(replayDir(rep.Prop), "lost-obligations.json")
	m := map[string]interface{}{
		"property": rep.Prop,
		"kind":     "baseline obligations not generated",
		"explanation": "These obligations discharged on the reference tree but could not be generated from the current source: the function, loop or variable their contract is attached to has disappeared or changed shape, so the proof of the property no longer covers the code.",
		"obligations":             lost,
		"broken_functions":        broken,
		"failing_input_confirmed": false,
	}
	b, _ := json.MarshalIndent(m, "", " ")
	os.WriteFile(path, b, 0o644)
	return path
}

func writeEvidence(rep *Report) {
	var meta PropMeta
	loadJSON(filepath.Join(verifDir, "props", rep.Prop+".json"), &meta)
	var samples []map[string]interface{}
	step := 1
	if len(rep.All) > 12 {
		step = len(rep.All) / 12
	}
	for i := 0; i < len(rep.All) && len(samples) < 14; i += step {
		o := rep.All[i]
		g := o.goal
		if len(g) > 400 {
			g = g[:400] + "..."
		}
		samples = append(samples, map[string]interface{}{"obligation": o.Name, "kind": o.Kind, "at": o.Pos, "what": o.Desc,
			"goal_smt": g, "status": o.Status, "backend": o.Backend, "solver_s": round3(o.Time)})
	}
	trusted := []string{"govc VC generator (this repository, /verif/govc)", "golang.org/x/tools go/ssa v0.29.0 and go/types (front end)",
		"SMT solvers: z3 5.1.0 (z3-new), z3 4.8.12, cvc5 1.0.x", "extern contracts under /verif/contracts/extern (std-lib and go-diff), listed under assumptions when used"}
	cov := map[string]interface{}{
		"obligations":              rep.Obligations,
		"discharged":               rep.Discharged,
		"checker_cmd":              fmt.Sprintf("/verif/bin/govc check -prop %s -tier %s", rep.Prop, rep.Tier),
		"trusted_base":             trusted,
		"samples":                  samples,
		"functions_under_contract": rep.Funcs,
		"by_kind":                  rep.ByKind,
		"by_backend":               rep.ByBackend,
		"solver_s":                 map[string]float64{"sum": round3(rep.SolverS), "max": round3(rep.SolverMax)},
		"undecided":                rep.Undecided,
		"known_findings":           rep.KnownLines,
		"not_decided":              meta.NotDecided,
		"vacuity":                  map[string]int{"covers_run": rep.VacRun, "covers_passed": rep.VacPass},
		"soft_overflow":            map[string]int{"sites": rep.SoftTotal, "open": rep.SoftOpen},
		"bounded":                  rep.Bounded,
		"unmodelled_constructs":    rep.Notes,
		"slow_obligations":         rep.Slow,
		"explanation":              "obligations = hard obligations claimed (discharged, or violated); soft overflow obligations, vacuity covers, obligations listed as known findings and undecided obligations outside the baseline are reported separately and are never counted as discharged",
	}
	ass := append([]string{}, rep.Assumptions...)
	ass = append(ass, meta.Assumes...)
	ass = append(ass, meta.Meta...)
	ev := map[string]interface{}{
		"property_id": rep.Prop, "tier": rep.Tier, "seed": rep.Seed, "level": "proof", "coverage": cov,
		"assumptions": ass, "wall_s": round3(rep.Wall), "violations": rep.Violations,
	}
	if rep.Fatal != "" {
		ev["fatal"] = rep.Fatal
	}
	os.MkdirAll(filepath.Join(outDir, "evidence"), 0o755)
	b, _ := json.MarshalIndent(ev, "", " ")
	os.WriteFile(filepath.Join(outDir, "evidence", rep.Prop+".json"), b, 0o644)
}

func round3(f float64) float64 { return float64(int(f*1000+0.5)) / 1000 }

// claimName: obligation name without instance ordinal and conjunct number.
func claimName(name string) string {
	if k := strings.LastIndex(name, "@"); k >= 0 {
		name = name[:k]
	}
	// obligations that differ only in the callee they concern belong to one
	// claim of the function: "every call meets its precondition", "every write
	// and call stays inside `modifies`", "every access follows the lock
	// discipline" — so that a new call site cannot escape the baseline.
	if k := strings.LastIndex(name, "#"); k >= 0 {
		kind := name[k+1:]
		switch {
		case strings.HasPrefix(kind, "frame-call:"):
			kind = "frame"
		case strings.HasPrefix(kind, "pre:"):
			kind = "pre"
		case strings.HasPrefix(kind, "lock:call:"):
			kind = "lock:call"
		}
		name = name[:k+1] + kind
	}
	return name
}
