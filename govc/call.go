package main

import (
	"fmt"
	"go/token"
	"go/types"
	"sort"
	"strings"

	"golang.org/x/tools/go/ssa"
)

// ---------------------------------------------------------------- write sets

const wsAll = "ALL"
const wsAlloc = "nextRef"
const wsFreshAll = "FRESH-ALL" // may allocate and initialise new objects of any type

// writeSet computes syntactically the heaps a function (and its static
// callees) may write. "ALL" stands for unknown effects.
func (e *Exec) writeSet(fn *ssa.Function) map[string]bool {
	if ws, ok := e.wsCache[fn]; ok {
		return ws
	}
	ws := map[string]bool{}
	e.wsCache[fn] = ws // recursion guard: optimistic, fixed below by iteration
	for iter := 0; iter < 4; iter++ {
		before := len(ws)
		e.writeSetOnce(fn, ws)
		if len(ws) == before {
			break
		}
	}
	return ws
}

func (e *Exec) specOf(fn *ssa.Function) *FuncSpec {
	if fn == nil {
		return nil
	}
	if s, ok := e.ss.Funcs[funcKey(fn)]; ok {
		return s
	}
	return nil
}

// specOrDefault: written contract, or the default std-lib frame.
func (e *Exec) specOrDefault(fn *ssa.Function) *FuncSpec {
	if s := e.specOf(fn); s != nil {
		return s
	}
	return e.defaultStdSpec(fn)
}

func (e *Exec) writeSetOnce(fn *ssa.Function, ws map[string]bool) {
	spec := e.specOrDefault(fn)
	if spec != nil && (spec.Extern || fn.Blocks == nil || spec.Trusted) {
		e.specWrites(fn, spec, ws)
		return
	}
	if fn.Blocks == nil {
		ws[wsAll] = true
		return
	}
	if spec == nil && !e.inRepo(fn) {
		ws[wsAll] = true
		return
	}
	for _, b := range fn.Blocks {
		for _, in := range b.Instrs {
			e.instrWrites(fn, in, ws)
		}
	}
	for _, an := range fn.AnonFuncs {
		_ = an
	}
}

func (e *Exec) inRepo(fn *ssa.Function) bool {
	p := fn.Pkg
	if p == nil && fn.Parent() != nil {
		p = fn.Parent().Pkg
	}
	if p == nil {
		return false
	}
	return strings.HasPrefix(p.Pkg.Path(), "github.com/google/licenseclassifier")
}

// specWrites: effects of a function known only by contract.
func (e *Exec) specWrites(fn *ssa.Function, spec *FuncSpec, ws map[string]bool) {
	// ghost variables assigned by the callee's own ghost statements
	for _, gs := range spec.GhostSets {
		if g, ok := e.ss.GhostVars[gs.Var]; ok {
			env := &SpecEnv{ex: e, st: &State{pc: "true", heaps: map[string]string{}, ghost: map[string]Val{}, cells: map[*ssa.Alloc]Val{}, nextRef: e.nextRef0}, vars: map[string]Val{}}
			env.ghostVar(g)
			ws["G$"+gs.Var] = true
		}
	}
	if spec.Pure {
		if spec.Allocs {
			ws[wsAlloc] = true
		}
		return
	}
	if len(spec.Writes) > 0 {
		for _, w := range spec.Writes {
			ws[w] = true
		}
		if !spec.HasMod {
			return
		}
	}
	if spec.HasMod {
		ws[wsAlloc] = true
		for _, h := range e.modHeapsSyntactic(fn, spec) {
			ws[h] = true
		}
		return
	}
	ws[wsAll] = true
}

// modHeapsSyntactic derives heap names from `modifies` clauses using only
// static types of the parameters.
func (e *Exec) modHeapsSyntactic(fn *ssa.Function, spec *FuncSpec) []string {
	env := &SpecEnv{ex: e, typeOnly: true, vars: map[string]Val{}, fn: fn, spec: spec}
	env.bindParamsTypesOnly(fn)
	if fn == nil {
		// contract of an interface method: the receiver is an interface value
		env.vars["recv"] = Val{T: "0", S: sIface, GoT: types.NewInterfaceType(nil, nil)}
	}
	var out []string
	for _, c := range spec.Modifies {
		env.pkgOverride = c.Pkg
		for _, l := range c.Locs {
			for _, hl := range env.evalLoc(l) {
				out = append(out, hl.heap)
			}
		}
	}
	return out
}

func (e *Exec) instrWrites(fn *ssa.Function, in ssa.Instruction, ws map[string]bool) {
	switch x := in.(type) {
	case *ssa.Alloc:
		t := x.Type().Underlying().(*types.Pointer).Elem()
		if strings.Contains(t.String(), "sync.WaitGroup") {
			ws["G$wgtok"], ws["G$wgst"] = true, true
		}
		if isStruct(t) {
			ws[wsAlloc] = true
			e.structHeaps(t, ws)
		} else if isArray(t) {
			ws[wsAlloc] = true
			ws[e.elemHeap(t.Underlying().(*types.Array).Elem())] = true
		} else if x.Heap {
			ws[wsAlloc] = true
			ws[e.boxHeap(t)] = true
		}
	case *ssa.Send:
		ws["G$chcredit"] = true
	case *ssa.UnOp:
		if x.Op == token.ARROW {
			ws["G$chcredit"] = true
		}
	case *ssa.Store:
		e.addrWrites(x.Addr, ws)
	case *ssa.MapUpdate:
		md, mv := e.mapHeaps(x.Map.Type().Underlying().(*types.Map))
		ws[md], ws[mv] = true, true
	case *ssa.MakeMap:
		md, mv := e.mapHeaps(x.Type().Underlying().(*types.Map))
		ws[md], ws[mv] = true, true
		ws[wsAlloc] = true
	case *ssa.MakeSlice:
		ws[wsAlloc] = true
		ws[e.elemHeap(x.Type().Underlying().(*types.Slice).Elem())] = true
	case *ssa.MakeChan:
		ws[wsAlloc] = true
		ws["G$mayclose"] = true
		ws["G$chcredit"] = true
	case *ssa.Convert:
		if sl, ok := x.Type().Underlying().(*types.Slice); ok {
			ws[wsAlloc] = true
			ws[e.elemHeap(sl.Elem())] = true
		}
	case *ssa.Go:
		// the spawner hands over the permissions the goroutine `holds`
		if sc := e.goCallee(&x.Call); sc != nil {
			if spec := e.specOf(sc); spec != nil {
				for _, h := range spec.Holds {
					ws["G$"+h.Fn] = true
				}
			}
		}
		e.callWrites(&x.Call, ws)
	case *ssa.Call:
		e.callWrites(&x.Call, ws)
	case *ssa.Defer:
		e.callWrites(&x.Call, ws)
	}
}

// goCallee: the function a go statement starts, if it is known statically
// (a function, or a closure made in the same function).
func (e *Exec) goCallee(c *ssa.CallCommon) *ssa.Function {
	if sc := c.StaticCallee(); sc != nil {
		return sc
	}
	if mc, ok := c.Value.(*ssa.MakeClosure); ok {
		return mc.Fn.(*ssa.Function)
	}
	return e.resolveLocalClosure(c.Value)
}

func (e *Exec) structHeaps(t types.Type, ws map[string]bool) {
	st := t.Underlying().(*types.Struct)
	for i := 0; i < st.NumFields(); i++ {
		if isStruct(st.Field(i).Type()) {
			e.structHeaps(st.Field(i).Type(), ws)
		} else {
			ws[e.fieldHeap(t, i)] = true
		}
	}
}

func (e *Exec) addrWrites(a ssa.Value, ws map[string]bool) {
	switch x := a.(type) {
	case *ssa.Alloc:
		t := x.Type().Underlying().(*types.Pointer).Elem()
		if isStruct(t) {
			e.structHeaps(t, ws)
		} else if x.Heap {
			ws[e.boxHeap(t)] = true
		}
	case *ssa.FieldAddr:
		pt := x.X.Type().Underlying().(*types.Pointer).Elem()
		ft := pt.Underlying().(*types.Struct).Field(x.Field).Type()
		// a field of an object, or of a struct held in a slice element/cell
		if inner, ok := x.X.(*ssa.IndexAddr); ok {
			e.addrWrites(inner, ws)
			return
		}
		if inner, ok := x.X.(*ssa.FieldAddr); ok && !isStruct(ft) {
			_ = inner
		}
		if isStruct(ft) {
			e.structHeaps(ft, ws)
		} else {
			ws[e.fieldHeap(pt, x.Field)] = true
		}
	case *ssa.IndexAddr:
		switch u := x.X.Type().Underlying().(type) {
		case *types.Slice:
			ws[e.elemHeap(u.Elem())] = true
		case *types.Pointer:
			ws[e.elemHeap(u.Elem().Underlying().(*types.Array).Elem())] = true
		}
	default:
		t := a.Type().Underlying().(*types.Pointer).Elem()
		if isStruct(t) {
			e.structHeaps(t, ws)
		} else if isArray(t) {
			ws[e.elemHeap(t.Underlying().(*types.Array).Elem())] = true
		} else {
			ws[e.boxHeap(t)] = true
		}
	}
}

func (e *Exec) callWrites(c *ssa.CallCommon, ws map[string]bool) {
	if c.IsInvoke() {
		if spec := e.invokeSpec(c); spec != nil {
			e.specWrites(nil, spec, ws)
			return
		}
		ws[wsAll] = true
		return
	}
	switch v := c.Value.(type) {
	case *ssa.Builtin:
		switch v.Name() {
		case "append":
			ws[wsAlloc] = true
			ws[e.elemHeap(c.Args[0].Type().Underlying().(*types.Slice).Elem())] = true
		case "copy":
			ws[e.elemHeap(c.Args[0].Type().Underlying().(*types.Slice).Elem())] = true
		case "delete":
			md, mv := e.mapHeaps(c.Args[0].Type().Underlying().(*types.Map))
			ws[md], ws[mv] = true, true
		case "close":
			ws["G$mayclose"] = true
		}
		return
	}
	callee := c.StaticCallee()
	if callee == nil {
		if fs := e.funcValueSpec(c); fs != nil {
			e.specWrites(nil, fs, ws)
			return
		}
		if fs := e.funcTypeSpec(c); fs != nil {
			e.specWrites(nil, fs, ws)
			return
		}
		// a local closure variable called through a cell: find the closure
		if fn := e.resolveLocalClosure(c.Value); fn != nil {
			callee = fn
		} else {
			ws[wsAll] = true
			return
		}
	}
	for k := range e.writeSet(callee) {
		ws[k] = true
	}
}

// resolveLocalClosure: v is a load from a local cell that is assigned exactly
// one MakeClosure/function in the enclosing function.
func (e *Exec) resolveLocalClosure(v ssa.Value) *ssa.Function {
	u, ok := v.(*ssa.UnOp)
	if !ok || u.Op != token.MUL {
		return nil
	}
	a, ok := u.X.(*ssa.Alloc)
	if !ok {
		// a variable of the enclosing function captured by this closure
		fv, isFV := u.X.(*ssa.FreeVar)
		if !isFV || fv.Parent() == nil || fv.Parent().Parent() == nil {
			return nil
		}
		inner := fv.Parent()
		idx := -1
		for i, x := range inner.FreeVars {
			if x == fv {
				idx = i
			}
		}
		for _, b := range inner.Parent().Blocks {
			for _, in := range b.Instrs {
				if mc, ok := in.(*ssa.MakeClosure); ok && mc.Fn == ssa.Value(inner) && idx >= 0 && idx < len(mc.Bindings) {
					if al, ok := mc.Bindings[idx].(*ssa.Alloc); ok {
						a = al
					}
				}
			}
		}
		if a == nil {
			return nil
		}
	}
	var found *ssa.Function
	n := 0
	for _, r := range *a.Referrers() {
		if s, ok := r.(*ssa.Store); ok && s.Addr == a {
			n++
			switch f := s.Val.(type) {
			case *ssa.MakeClosure:
				found = f.Fn.(*ssa.Function)
			case *ssa.Function:
				found = f
			}
		}
	}
	if n == 1 {
		return found
	}
	return nil
}

// invokeSpec finds an extern contract for an interface method call:
// key "iface <pkgpath>.<Iface>.<Method>".
func (e *Exec) invokeSpec(c *ssa.CallCommon) *FuncSpec {
	t := c.Value.Type()
	name := types.TypeString(t, nil)
	if s, ok := e.ss.Funcs["iface "+name+"."+c.Method.Name()]; ok {
		return s
	}
	if s, ok := e.ss.Funcs["(iface "+name+")."+c.Method.Name()]; ok {
		return s
	}
	return nil
}

// funcValueSpec finds a contract for calls of a function-typed struct field:
// key "<pkg>.fieldfunc <Struct>.<field>".
func (e *Exec) funcValueSpec(c *ssa.CallCommon) *FuncSpec {
	u, ok := c.Value.(*ssa.UnOp)
	if !ok {
		if f, ok := c.Value.(*ssa.Field); ok {
			st := f.X.Type()
			key := typeShortName(st) + "." + st.Underlying().(*types.Struct).Field(f.Field).Name()
			if s, ok := e.ss.Funcs[pkgPathOf(st)+".fieldfunc "+key]; ok {
				return s
			}
		}
		return nil
	}
	fa, ok := u.X.(*ssa.FieldAddr)
	if !ok {
		return nil
	}
	st := fa.X.Type().Underlying().(*types.Pointer).Elem()
	key := typeShortName(st) + "." + st.Underlying().(*types.Struct).Field(fa.Field).Name()
	if s, ok := e.ss.Funcs[pkgPathOf(st)+".fieldfunc "+key]; ok {
		return s
	}
	return nil
}

func pkgPathOf(t types.Type) string {
	if n, ok := t.(*types.Named); ok && n.Obj().Pkg() != nil {
		return n.Obj().Pkg().Path()
	}
	return ""
}

// ---------------------------------------------------------------- loop havoc

func (e *Exec) loopWriteSet(fr *frame, h *ssa.BasicBlock) (map[string]bool, map[*ssa.Alloc]bool) {
	ws := map[string]bool{}
	cells := map[*ssa.Alloc]bool{}
	for _, b := range fr.fn.Blocks {
		if !fr.loops.body[h][b] {
			continue
		}
		for _, in := range b.Instrs {
			e.instrWrites(fr.fn, in, ws)
			if ci, ok := in.(ssa.CallInstruction); ok && fr.spec != nil {
				if f := ci.Common().StaticCallee(); f != nil {
					for _, gs := range fr.spec.GhostSets {
						if gs.OnStore != "" {
							continue
						}
						hit := gs.Callee == f.Name()
						if !hit && strings.HasPrefix(gs.Callee, f.Name()+"#") {
							for _, k := range e.siteKeysOf(fr, f.Name(), ci.Common()) {
								if k == gs.Callee {
									hit = true
								}
							}
						}
						if hit {
							ws["G$"+gs.Var] = true
						}
					}
				}
			}
			if _, ok := in.(*ssa.Send); ok && fr.spec != nil {
				for _, gs := range fr.spec.GhostSets {
					if gs.OnStore == "@send" {
						ws["G$"+gs.Var] = true
					}
				}
			}
			if s, ok := in.(*ssa.Store); ok && fr.spec != nil {
				if fa, ok := s.Addr.(*ssa.FieldAddr); ok {
					pt := fa.X.Type().Underlying().(*types.Pointer).Elem()
					key := "@field:" + typeShortName(pt) + "." + pt.Underlying().(*types.Struct).Field(fa.Field).Name()
					for _, gs := range fr.spec.GhostSets {
						if gs.OnStore == key {
							ws["G$"+gs.Var] = true
						}
					}
				}
				if a, ok := s.Addr.(*ssa.Alloc); ok {
					for _, gs := range fr.spec.GhostSets {
						if gs.OnStore != "" && gs.OnStore == a.Comment {
							ws["G$"+gs.Var] = true
						}
					}
				}
			}
			if s, ok := in.(*ssa.Store); ok {
				if a, ok := s.Addr.(*ssa.Alloc); ok {
					cells[a] = true
				} else if a := rootAlloc(s.Addr); a != nil {
					cells[a] = true
				}
			}
			if a, ok := in.(*ssa.Alloc); ok {
				cells[a] = true
			}
		}
	}
	return ws, cells
}

func rootAlloc(v ssa.Value) *ssa.Alloc {
	for {
		switch x := v.(type) {
		case *ssa.Alloc:
			return x
		case *ssa.FieldAddr:
			v = x.X
		case *ssa.IndexAddr:
			if _, ok := x.X.Type().Underlying().(*types.Pointer); ok {
				v = x.X
			} else {
				return nil
			}
		default:
			return nil
		}
	}
}

func (e *Exec) loopWritesMap(fr *frame, b *ssa.BasicBlock, mt *types.Map) bool {
	// find innermost loop header whose body contains b
	_, mv := e.mapHeaps(mt)
	for _, h := range fr.loops.headers {
		if fr.loops.body[h][b] {
			ws, _ := e.loopWriteSet(fr, h)
			if ws[mv] || ws[wsAll] {
				return true
			}
		}
	}
	return false
}

// havocLoop produces the state at an arbitrary iteration of the loop headed
// by h: everything the body may write is replaced by fresh values.
func (e *Exec) havocLoop(fr *frame, pre *State, h *ssa.BasicBlock, ord int) *State {
	st := e.fork(pre)
	e.ctx.tag = st.id
	if st.dead {
		return st
	}
	ws, cells := e.loopWriteSet(fr, h)
	if ws[wsAll] {
		e.note("%s: loop %d of %s has unknown effects: all heaps havoced at its head", e.w.pos(firstPos(h)), ord, fr.prefix)
		e.havocAll(st)
		st.nextRef = e.ctx.fresh("nextRef", sInt)
		e.ctx.assume(imp(st.pc, le(pre.nextRef, st.nextRef)))
	} else {
		names := make([]string, 0, len(ws))
		for k := range ws {
			names = append(names, k)
		}
		sort.Strings(names)
		if ws[wsAlloc] {
			st.nextRef = e.ctx.fresh("nextRef", sInt)
			e.ctx.assume(imp(st.pc, le(pre.nextRef, st.nextRef)))
		}
		targets, unknown := e.loopStoreTargets(fr, pre, h, cells)
		for _, name := range names {
			if name == wsAlloc || name == wsFreshAll {
				continue
			}
			old, nw := e.havocHeapTyped(st, name, st.nextRef)
			e.loopFrameAssume(fr, st, pre, name, old, nw, ord)
			if !unknown[name] {
				// every store of the loop to this heap goes to one of a few
				// loop-invariant objects or to objects allocated inside the loop
				tg := targets[name]
				preRef := pre.nextRef
				keep := func(r string) string {
					c := lt(app("root", r), preRef)
					for _, t := range tg {
						c = and(c, not(eq(r, t)))
					}
					return c
				}
				e.frameAssume(st.pc, name, nw, old, keep)
			}
		}
	}
	if ws[wsFreshAll] && !ws[wsAll] {
		explicit := map[string]string{}
		for name := range ws {
			if t, ok := st.heaps[name]; ok {
				explicit[name] = t
			}
		}
		e.freshAllHavoc(st, pre, explicit)
	}
	for _, a := range sortedAllocs(cells) {
		if v, ok := st.cells[a]; ok {
			t := a.Type().Underlying().(*types.Pointer).Elem()
			if v.Clo != nil {
				continue // closures are immutable values
			}
			st.cells[a] = e.havocVal(st, t, a.Comment)
		}
	}
	for _, k := range sortedKeys(st.ghost) {
		v := st.ghost[k]
		if strings.HasPrefix(k, "range$") {
			// only ranges started inside or at this loop are modified; ranges of
			// enclosing loops keep their values unless this loop contains their Next
			if !e.ghostInLoop(fr, h, k) {
				continue
			}
		} else if !e.ghostWrittenInLoop(fr, h, k) {
			continue
		}
		c := e.ctx.fresh(k, v.S)
		st.ghost[k] = Val{T: c, S: v.S, GoT: v.GoT}
	}
	return st
}

func (e *Exec) ghostInLoop(fr *frame, h *ssa.BasicBlock, key string) bool {
	for rng, name := range fr.rangeGhost {
		if strings.HasPrefix(key, name+"$") {
			for _, r := range *rng.Referrers() {
				if n, ok := r.(*ssa.Next); ok && fr.loops.body[h][n.Block()] {
					return true
				}
			}
			return false
		}
	}
	return true
}

func (e *Exec) ghostWrittenInLoop(fr *frame, h *ssa.BasicBlock, key string) bool {
	return true
}

// loopFrameAssume: heap cells of objects that existed at function entry and
// are outside the function's `modifies` keep their entry contents (every
// store is checked against the frame, so this is an invariant of all loops).
// In addition, a loop-level `modifies` clause (loop N modifies ...) limits
// what the loop may change relative to its entry.
func (e *Exec) loopFrameAssume(fr *frame, st, pre *State, heap, old, nw string, ord int) {
	hi := e.heapInfos[heap]
	if hi.kind == 'g' {
		return
	}
	if e.spec != nil && e.spec.HasMod && !e.modAll && fr.fn == e.fn {
		entryT := e.heapTerm(e.entry, heap)
		keep := func(r string) string {
			cond := lt(app("root", r), e.nextRef0)
			for _, m := range append(append([]modLoc{}, e.modset[heap]...), e.modset["*"]...) {
				if m.all {
					cond = and(cond, not(m.cond))
				} else if m.pred != nil {
					cond = and(cond, not(and(m.cond, m.pred(r))))
				} else {
					cond = and(cond, not(and(m.cond, eq(r, m.ref))))
				}
			}
			return cond
		}
		e.frameAssume(st.pc, heap, nw, entryT, keep)
	}
	if fr.spec != nil {
		if lms, ok := fr.spec.LoopMods[ord]; ok {
			env := e.specEnv(fr, pre, nil)
			var hls []heapLoc
			for _, c := range lms {
				for _, l := range c.Locs {
					for _, hl := range env.evalLoc(l) {
						if hl.heap == heap {
							hls = append(hls, hl)
						}
					}
				}
			}
			keep := func(r string) string {
				cond := "true"
				for _, hl := range hls {
					cond = and(cond, not(hl.has(r)))
				}
				return cond
			}
			e.frameAssume(st.pc, heap, nw, old, keep)
			fr.loopModChecks[ord] = true
		}
	}
}

// ---------------------------------------------------------------- calls

func (e *Exec) call(fr *frame, st *State, c *ssa.CallCommon, instr ssa.Instruction, rt types.Type, pos token.Pos) Val {
	var args []Val
	for _, a := range c.Args {
		args = append(args, e.val(fr, a))
	}
	fv := e.val(fr, c.Value)
	return e.callWith(fr, st, c, fv, args, rt, pos, "")
}

func resultTypes(sig *types.Signature) []types.Type {
	var out []types.Type
	for i := 0; i < sig.Results().Len(); i++ {
		out = append(out, sig.Results().At(i).Type())
	}
	return out
}

func (e *Exec) packResults(rs []Val, rt types.Type) Val {
	if tup, ok := rt.(*types.Tuple); ok {
		if tup.Len() == 0 {
			return Val{Tup: []Val{}, GoT: rt}
		}
		return Val{Tup: rs, GoT: rt}
	}
	if len(rs) == 1 {
		return rs[0]
	}
	return Val{Tup: rs, GoT: rt}
}

func (e *Exec) callWith(fr *frame, st *State, c *ssa.CallCommon, fv Val, args []Val, rt types.Type, pos token.Pos, how string) Val {
	sig := c.Signature()
	e.curCallFrame = fr
	e.curCall = c
	e.curCallArg0 = nil
	if len(c.Args) > 0 {
		e.curCallArg0 = c.Args[0]
	}
	if c.IsInvoke() {
		spec := e.invokeSpec(c)
		if spec != nil {
			all := append([]Val{fv}, args...)
			names := []string{"recv"}
			for i := 0; i < sig.Params().Len(); i++ {
				names = append(names, sig.Params().At(i).Name())
			}
			return e.contractCall(fr, st, nil, spec, "iface."+c.Method.Name(), names, all, sig, rt, pos)
		}
		e.note("%s: interface method call %s without contract: result and all heaps havoced", e.w.pos(pos), c.Method.Name())
		e.havocAll(st)
		return e.havocVal(st, rt, "invoke")
	}
	if b, ok := c.Value.(*ssa.Builtin); ok {
		return e.builtin(fr, st, b.Name(), c, args, rt, pos)
	}
	var callee *ssa.Function
	var bindings []Val
	if fv.Clo != nil {
		callee = fv.Clo.Fn
		bindings = fv.Clo.Bindings
	} else if sc := c.StaticCallee(); sc != nil {
		callee = sc
	} else if fv.T != "" {
		if cl, ok := e.closureIDs[fv.T]; ok {
			callee, bindings = cl.Fn, cl.Bindings
		}
	}
	if callee == nil {
		if fv.T != "" && fv.Bad == "" {
			e.oblige(fr, st, "nilfunc", "call of a nil function value", pos, not(eq(fv.T, "0")))
		}
		fs := e.funcValueSpec(c)
		if fs == nil {
			fs = e.funcTypeSpec(c)
		}
		if fs != nil {
			names := []string{}
			for i := 0; i < sig.Params().Len(); i++ {
				n := sig.Params().At(i).Name()
				if n == "" || n == "_" {
					n = fmt.Sprintf("a%d", i)
				}
				names = append(names, n)
			}
			names = append([]string{"fn"}, names...)
			all := append([]Val{e.tval(fr, st, c.Value)}, args...)
			return e.contractCall(fr, st, nil, fs, fs.Target, names, all, sig, rt, pos)
		}
		e.note("%s: call of unknown function value: result and all heaps havoced", e.w.pos(pos))
		e.havocAll(st)
		return e.havocVal(st, rt, "dyncall")
	}
	spec := e.specOf(callee)
	key := funcKey(callee)
	if spec == nil {
		if ds := e.defaultStdSpec(callee); ds != nil {
			spec = ds
		}
	}
	if spec == nil {
		if callee.Parent() != nil && callee.Blocks != nil && e.inRepo(callee) && e.closureInlinable(callee) {
			// local closures without a contract are inlined
			return e.inline(fr, st, callee, nil, args, bindings, rt, pos)
		}
		ws := e.writeSet(callee)
		if e.inRepo(callee) {
			e.note("%s: call of %s which has no contract: default contract (result havoced, its write set havoced)", e.w.pos(pos), key)
		} else {
			e.note("%s: call of external %s without contract: result and all heaps havoced", e.w.pos(pos), key)
		}
		e.havocWrites(fr, st, ws, nil, nil, pos, key)
		return e.havocVal(st, rt, "call")
	}
	if spec.Inline && callee.Blocks != nil {
		return e.inline(fr, st, callee, spec, args, bindings, rt, pos)
	}
	names := paramNames(callee, sig)
	all := args
	if len(bindings) > 0 {
		for i, fvv := range callee.FreeVars {
			names = append(names, fvv.Name())
			if i < len(bindings) {
				all = append(all, bindings[i])
			}
		}
	}
	return e.contractCall(fr, st, callee, spec, key, names, all, sig, rt, pos)
}

func (e *Exec) closureInlinable(fn *ssa.Function) bool {
	if len(fn.Blocks) > 12 {
		return false
	}
	li := analyseLoops(fn)
	return len(li.headers) == 0
}

func paramNames(fn *ssa.Function, sig *types.Signature) []string {
	var names []string
	if fn != nil && len(fn.Params) > 0 {
		for i, p := range fn.Params {
			n := p.Name()
			if n == "" || n == "_" {
				n = fmt.Sprintf("a%d", i)
			}
			names = append(names, n)
		}
		return names
	}
	if sig.Recv() != nil {
		n := sig.Recv().Name()
		if n == "" || n == "_" {
			n = "recv"
		}
		names = append(names, n)
	}
	for i := 0; i < sig.Params().Len(); i++ {
		n := sig.Params().At(i).Name()
		if n == "" || n == "_" {
			n = fmt.Sprintf("a%d", i)
		}
		names = append(names, n)
	}
	return names
}

func (e *Exec) inline(fr *frame, st *State, callee *ssa.Function, spec *FuncSpec, args []Val, bindings []Val, rt types.Type, pos token.Pos) Val {
	key := funcKey(callee)
	for _, k := range e.inlineStack {
		if k == key {
			e.note("%s: recursive inline of %s refused", e.w.pos(pos), key)
			e.havocAll(st)
			return e.havocVal(st, rt, "rec")
		}
	}
	if len(e.inlineStack) > 6 {
		e.havocAll(st)
		return e.havocVal(st, rt, "deep")
	}
	e.inlineStack = append(e.inlineStack, key)
	defer func() { e.inlineStack = e.inlineStack[:len(e.inlineStack)-1] }()
	short := callee.Name()
	nf := e.newFrame(callee, spec, fr.prefix+">"+short)
	var targs []Val
	for i, a := range args {
		if a.T == "" && a.Addr == nil && a.Clo == nil && a.Bad == "" && len(a.Tup) == 0 {
			a = e.havocVal(st, callee.Params[i].Type(), "arg")
		}
		targs = append(targs, a)
	}
	rets := e.runBody(nf, st, targs, bindings)
	var sts []*State
	for _, r := range rets {
		sts = append(sts, r.st)
	}
	merged := e.mergeStates(sts)
	// copy merged state into st (st is mutated in place by callers)
	*st = *merged
	if len(rets) == 0 {
		st.dead = true
		return e.havocVal(st, rt, "noret")
	}
	nres := len(rets[0].res)
	var out []Val
	for i := 0; i < nres; i++ {
		var pcs []string
		var vals []Val
		for _, r := range rets {
			if r.st.dead || r.st.pc == "false" {
				continue
			}
			pcs = append(pcs, r.st.pc)
			vals = append(vals, r.res[i])
		}
		if len(vals) == 0 {
			out = append(out, e.havocVal(st, callee.Signature.Results().At(i).Type(), "res"))
			continue
		}
		out = append(out, e.mergeVals(pcs, vals, "res"))
	}
	return e.packResults(out, rt)
}

type heapLoc struct {
	heap string
	ref  string
	all  bool // every object (used by `modifies everything of heap`)
	pred func(r string) string // set of objects: membership predicate (pointees(...))
	cond string                // "" or the `when` condition
}

func (l heapLoc) has(r string) string {
	c := l.cond
	if c == "" {
		c = "true"
	}
	if l.all {
		return c
	}
	if l.pred != nil {
		return and(c, l.pred(r))
	}
	return and(c, eq(r, l.ref))
}

// havocWrites replaces the heaps in ws by fresh versions; with a modifies
// clause, everything outside it (among objects existing before) is preserved.
func (e *Exec) havocWrites(fr *frame, st *State, ws map[string]bool, mods []heapLoc, spec *FuncSpec, pos token.Pos, callee string) {
	noFrame := e.noFrameHeaps
	e.noFrameHeaps = nil
	if ws[wsAll] {
		if e.spec != nil && e.spec.HasMod && !e.modAll {
			e.oblige(fr, st, "frame-call:"+shortName(callee), "callee "+callee+" has unknown effects; cannot show they stay inside `modifies`", pos, "false")
		}
		pre := st.nextRef
		e.havocAll(st)
		st.nextRef = e.ctx.fresh("nextRef", sInt)
		e.ctx.assume(imp(st.pc, le(pre, st.nextRef)))
		return
	}
	names := make([]string, 0, len(ws))
	for k := range ws {
		if k == wsFreshAll {
			continue
		}
		names = append(names, k)
	}
	sort.Strings(names)
	preRef := st.nextRef
	var prevState *State
	if ws[wsFreshAll] {
		prevState = st.clone()
		// make sure explicit heaps are registered before they are re-versioned
	}
	defer func() {
		if prevState != nil {
			explicit := map[string]string{}
			for _, n := range names {
				if n == wsAlloc {
					continue
				}
				if t, ok := st.heaps[n]; ok {
					explicit[n] = t
				}
			}
			e.freshAllHavoc(st, prevState, explicit)
		}
	}()
	hasMod := spec != nil && (spec.HasMod || spec.Pure || len(spec.Writes) > 0)
	if ws[wsAlloc] {
		st.nextRef = e.ctx.fresh("nextRef", sInt)
		e.ctx.assume(imp(st.pc, le(preRef, st.nextRef)))
	}
	for _, name := range names {
		if name == wsAlloc {
			continue
		}
		if _, known := e.heapInfos[name]; !known {
			continue
		}
		if hi := e.heapInfos[name]; hi.kind == 'V' {
			any := false
			for _, m := range mods {
				if m.heap == name || m.heap == "*" {
					any = true
					if m.pred != nil {
						e.rangeStable(fr, st, name, "", pos)
					} else {
						e.rangeStable(fr, st, name, m.ref, pos)
					}
				}
			}
			if !any && !(hasMod && spec.HasMod) {
				e.rangeStable(fr, st, name, "", pos)
			}
		}
		if hasMod && spec.HasMod && !noFrame[name] && e.heapInfos[name].kind != 'g' {
			touched := false
			for _, m := range mods {
				if m.heap == name || m.heap == "*" {
					touched = true
				}
			}
			if !touched {
				// The callee writes this heap only at objects it allocates itself.
				// Nothing is known about the contents of unallocated memory, so
				// the current version already stands for "old objects unchanged,
				// new objects arbitrary"; only the typing facts are extended to
				// the objects that exist now.
				cur := e.heapTerm(st, name)
				e.heapFacts(st, name, cur, e.heapInfos[name], st.nextRef, st.pc)
				continue
			}
		}
		old, nw := e.havocHeapTyped(st, name, st.nextRef)
		if e.heapInfos[name].kind == 'g' {
			continue
		}
		if noFrame[name] {
			// written by a callback passed to the callee: no frame is known
			if e.spec != nil && e.spec.HasMod && !e.modAll {
				e.oblige(fr, st, "frame-call:"+shortName(callee), "a callback passed to "+callee+" may write "+name, pos, "false")
			}
			continue
		}
		if hasMod && spec.HasMod {
			keep := func(r string) string {
				cond := lt(app("root", r), preRef)
				for _, m := range mods {
					if m.heap == name || m.heap == "*" {
						cond = and(cond, not(m.has(r)))
					}
				}
				return cond
			}
			e.frameAssume(st.pc, name, nw, old, keep)
		} else if e.spec != nil && e.spec.HasMod && !e.modAll && e.heapInfos[name].kind != 'g' && e.heapInfos[name].kind != 'G' {
			// callee without modifies clause writes this heap: cannot be framed
			e.oblige(fr, st, "frame-call:"+shortName(callee), "callee "+callee+" may write "+name+" and declares no `modifies`", pos, "false")
		}
	}
}

func shortName(key string) string {
	if k := strings.LastIndex(key, "/"); k >= 0 {
		key = key[k+1:]
	}
	return key
}

// contractCall: assert requires, havoc effects, assume ensures.
func (e *Exec) contractCall(fr *frame, st *State, callee *ssa.Function, spec *FuncSpec, key string, names []string, args []Val, sig *types.Signature, rt types.Type, pos token.Pos) Val {
	e.usedSpecs[key] = spec
	var targs []Val
	for i, a := range args {
		var pt types.Type
		if callee != nil && i < len(callee.Params) {
			pt = callee.Params[i].Type()
		} else if a.GoT != nil {
			pt = a.GoT
		}
		if a.Bad != "" || (a.T == "" && len(a.Tup) == 0) {
			if pt == nil {
				pt = types.Typ[types.Int]
			}
			if a.Clo != nil {
				a = e.termOf(st, a, pt)
			} else if a.Addr != nil && a.Addr.Kind == aCell {
				// pointer to a local cell passed to a callee: box it on the fly is
				// not possible; treat as opaque and forget the cell after the call
				e.note("%s: address of a stack variable passed to %s: variable havoced after the call", e.w.pos(pos), key)
				delete(st.cells, a.Addr.Cell)
				a = e.havocVal(st, pt, "addr")
			} else {
				a = e.termOf(st, a, pt)
			}
		}
		if pt != nil {
			a.GoT = pt
		}
		targs = append(targs, a)
	}
	env := &SpecEnv{ex: e, st: st, old: st, vars: map[string]Val{}, fn: callee, fr: nil, spec: spec, callerFr: fr}
	for i, n := range names {
		if i < len(targs) {
			env.vars[n] = targs[i]
		}
	}
	if callee != nil && len(callee.FreeVars) > 0 && len(names) >= len(callee.FreeVars) {
		// a closure called directly: its captured variables are named by their
		// content in its contract (the bindings are their addresses)
		np := len(names) - len(callee.FreeVars)
		for i, fvv := range callee.FreeVars {
			if np+i < len(targs) && names[np+i] == fvv.Name() && targs[np+i].T != "" {
				t := fvv.Type().Underlying().(*types.Pointer).Elem()
				if env.addrs == nil {
					env.addrs = map[string]Val{}
				}
				env.addrs[fvv.Name()] = Val{T: targs[np+i].T, S: sInt, GoT: fvv.Type()}
				env.vars[fvv.Name()] = env.loadRef(targs[np+i].T, t)
			}
		}
	}
	short := shortName(key)
	// logical variables of the callee's contract are bound by the caller's
	// `callghost` clauses (evaluated in the caller's scope at the call)
	for _, gp := range spec.GhostParams {
		var bound Expr
		if e.spec != nil && callee != nil {
			if m, ok := fr.specCallGhost(callee.Name()); ok {
				bound = m[gp.Name]
			}
		}
		if bound != nil {
			cenv := e.specEnv(fr, st, nil)
			for k, v := range fr.entryParams {
				if _, isLocal := fr.locals[k]; !isLocal {
					cenv.vars[k] = v
				}
			}
			env.vars[gp.Name] = cenv.eval(bound)
		} else {
			t := env.resolveType(gp.Type)
			if t == nil {
				t = types.Typ[types.Int]
			}
			env.vars[gp.Name] = e.havocVal(st, t, "ghost_"+gp.Name)
			e.note("%s: ghost parameter %s of %s is not bound by a callghost clause: arbitrary", e.w.pos(pos), gp.Name, key)
		}
	}
	for _, c := range spec.Requires {
		v := env.evalClause(c)
		e.ctx.group = c.Group
		o := e.oblige(fr, st, "pre:"+short, "precondition of "+key+": "+c.Src, pos, v.T)
		e.ctx.group = ""
		_ = o
	}
	// extra call-site requirements of the caller's contract (lock discipline)
	if e.spec != nil && callee != nil {
		var creqs []*Clause
		creqs = append(creqs, e.topFrame.spec.CallReqs[callee.Name()]...)
		if fr == e.topFrame {
			for _, k := range e.siteKeys(fr, callee.Name()) {
				creqs = append(creqs, e.topFrame.spec.CallReqs[k]...)
			}
		}
		for _, c := range creqs {
			cenv := e.specEnv(e.topFrame, st, nil)
			for k, v := range e.topFrame.entryParams {
				if _, isLocal := e.topFrame.locals[k]; !isLocal {
					cenv.vars[k] = v
				}
			}
			for i, n := range names {
				if i < len(targs) {
					cenv.vars["arg_"+n] = targs[i] // the call's arguments, by the callee's parameter names
				}
			}
			v := cenv.eval(c.E)
			e.oblige(fr, st, "lock:call:"+callee.Name(), "call of "+callee.Name()+" requires "+c.Src, pos, v.T)
		}
	}
	// lock invariant: checked when the lock is released
	if callee != nil {
		e.lockInvariant(fr, st, callee, args, false, pos)
		k := funcKey(callee)
		if k == "sync.(*Mutex).Unlock" || k == "sync.(*RWMutex).Unlock" {
			e.checkGuarantees(fr, st, pos)
		}
	}
	pre := st.clone()
	// effects
	var mods []heapLoc
	for _, c := range spec.Modifies {
		env.pkgOverride = c.Pkg
		cond := ""
		if c.When != nil {
			cond = env.eval(c.When).T
		}
		for _, l := range c.Locs {
			for _, hl := range env.evalLoc(l) {
				hl.cond = cond
				mods = append(mods, hl)
			}
		}
		env.pkgOverride = ""
	}
	ws := map[string]bool{}
	if callee != nil && !spec.Extern && !spec.Trusted && callee.Blocks != nil {
		for k := range e.writeSet(callee) {
			ws[k] = true
		}
		if ws[wsAll] && spec.HasMod {
			// declared frame wins: effects limited to declared heaps (+ allocation)
			ws = map[string]bool{wsAlloc: true}
			for k := range e.heapInfos {
				_ = k
			}
			for _, m := range mods {
				ws[m.heap] = true
			}
			e.trust("frame of " + key + " taken from its `modifies` clause although its body has calls with unknown effects")
		}
	} else {
		e.specWrites(callee, spec, ws)
		for _, m := range mods {
			ws[m.heap] = true
		}
	}
	var cbs []*Closure
	// closures passed to a function known only by contract may be called by
	// it any number of times: their effects are added, without a frame
	if callee == nil || spec.Extern || spec.Trusted || callee.Blocks == nil {
		for _, a := range args {
			if a.Clo != nil {
				if e.noFrameHeaps == nil {
					e.noFrameHeaps = map[string]bool{}
				}
				for k := range e.writeSet(a.Clo.Fn) {
					ws[k] = true
					if k != wsAlloc && k != wsFreshAll && k != wsAll {
						e.noFrameHeaps[k] = true
					}
				}
				e.trust("callback " + funcKey(a.Clo.Fn) + " passed to " + key + ": modelled as called any number of times (its write set is havoced)")
				if cs := e.specOf(a.Clo.Fn); cs != nil && len(cs.Preserves) > 0 {
					cbs = append(cbs, a.Clo)
					// the callback's invariant over its captured variables holds before
					// the call, is preserved by every invocation, so it holds afterwards
					for _, c := range cs.Preserves {
						v := e.closureEnv(fr, st, a.Clo, cs).eval(c.E)
						e.oblige(fr, st, "pre:callback:"+a.Clo.Fn.Name(), "invariant of callback "+funcKey(a.Clo.Fn)+" holds before it is handed to "+key+": "+c.Src, pos, v.T)
					}
				}
			}
		}
	}
	defer func() {
		for _, clo := range cbs {
			cs := e.specOf(clo.Fn)
			for _, c := range cs.Preserves {
				v := e.closureEnv(fr, st, clo, cs).eval(c.E)
				e.ctx.assume(imp(st.pc, v.T))
			}
			e.trust("invariant of callback " + funcKey(clo.Fn) + " is carried across the call of " + key + " (the callee is assumed to touch the captured variables only through the callback)")
		}
	}()
	// caller's frame: callee's declared locations must be inside it
	if e.spec != nil && e.spec.HasMod && !e.modAll {
		for _, m := range mods {
			if m.heap == "*" {
				// every object the callee may touch (any heap) must be in our frame
				goal := fmt.Sprintf("(forall ((r Int)) (=> (and %s (< (root r) %s)) %s))", m.has("r"), st.nextRef, e.inFrame("*", "r"))
				e.oblige(fr, st, "frame-call:"+short, "objects modified by "+key+" (all allocated since a given point) are inside caller's `modifies`", pos, goal)
				continue
			}
			if m.pred != nil || m.all {
				goal := fmt.Sprintf("(forall ((r Int)) (=> %s %s))", m.has("r"), e.inFrame(m.heap, "r"))
				e.oblige(fr, st, "frame-call:"+short, "locations modified by "+key+" ("+m.heap+", set) are inside caller's `modifies`", pos, goal)
				continue
			}
			c := m.cond
			if c == "" {
				c = "true"
			}
			e.oblige(fr, st, "frame-call:"+short, "location modified by "+key+" ("+m.heap+") is inside caller's `modifies`", pos, imp(c, e.inFrame(m.heap, m.ref)))
		}
	}
	e.havocWrites(fr, st, ws, mods, spec, pos, key)
	// results
	var res []Val
	rts := resultTypes(sig)
	if spec.Function && e.ctx.bv && key == "math.Abs" && len(targs) == 1 {
		res = append(res, Val{T: app("fp.abs", targs[0].T), S: sF, GoT: rts[0]})
	} else if spec.Function {
		fname := "fn$" + sanitize(key)
		if spec.FunctionAs != "" {
			fname = "spec$" + sanitize(spec.FunctionAs)
		}
		e.trust("result of " + key + " is a function of its arguments only (`function` clause)")
		var asorts, aterms []string
		for _, a := range targs {
			asorts = append(asorts, a.S)
			aterms = append(aterms, a.T)
		}
		for i, t := range rts {
			n := fname
			if len(rts) > 1 {
				n = fmt.Sprintf("%s$%d", fname, i)
			}
			rs := e.ctx.sortOf(t)
			if len(aterms) == 0 {
				e.ctx.declare(n, rs)
				res = append(res, Val{T: n, S: rs, GoT: t})
			} else {
				e.ctx.declareFun(n, asorts, rs)
				res = append(res, Val{T: app(n, aterms...), S: rs, GoT: t})
			}
			e.ctx.assume(imp(st.pc, e.valueFacts(res[i].T, t, st.nextRef)))
		}
	} else {
		for i, t := range rts {
			res = append(res, e.havocVal(st, t, fmt.Sprintf("%s_r%d", sanitize(short), i)))
		}
	}
	post := &SpecEnv{ex: e, st: st, old: pre, vars: map[string]Val{}, fn: callee, spec: spec, nextRef0: pre.nextRef, callerFr: fr}
	for k, v := range env.vars {
		post.vars[k] = v
	}
	bindResults(post.vars, callee, sig, res)
	for _, c := range spec.Ensures {
		// an existential postcondition is skolemised here, so that the caller's
		// contract can name the witness with a `choose` clause
		if q, guard, ok := existsForm(c.E); ok {
			saved := post.pkgOverride
			post.pkgOverride = c.Pkg
			c2 := post.child()
			g := "true"
			if guard != nil {
				g = post.eval(guard).T
			}
			okq := true
			for _, qv := range q.Vars {
				t := post.resolveType(qv.Type)
				if t == nil {
					okq = false
					break
				}
				w := e.havocVal(st, t, "witness_"+qv.Name)
				c2.vars[qv.Name] = w
				if callee != nil {
					e.witnesses[callee.Name()+"."+qv.Name] = w
				}
			}
			post.pkgOverride = saved
			if okq {
				c2.pkgOverride = c.Pkg
				body := c2.eval(q.Body)
				e.ctx.assume(imp(st.pc, imp(g, body.T)))
				continue
			}
		}
		v := post.evalClause(c)
		e.ctx.group = c.Group
		e.ctx.assume(imp(st.pc, v.T))
		e.ctx.group = ""
	}
	if spec.Extern || spec.Trusted || callee == nil || callee.Blocks == nil {
		e.trust("contract of " + key + " (" + spec.Line + ") is assumed, not verified")
	}
	if callee != nil && e.topFrame != nil && e.topFrame.spec != nil {
		// `choose x T after f suchthat P(x)`: name a witness of an existential
		// fact that holds after the call (definition by choice: if some value
		// satisfies P, then x does)
		for _, ch := range e.topFrame.spec.Chooses {
			if ch.Callee != callee.Name() {
				continue
			}
			cenv := e.specEnv(e.topFrame, st, nil)
			for k, v := range e.topFrame.entryParams {
				if _, isLocal := e.topFrame.locals[k]; !isLocal {
					cenv.vars[k] = v
				}
			}
			t := cenv.resolveType(ch.Type)
			if t == nil {
				e.specErrors = append(e.specErrors, "choose: unknown type "+ch.Type)
				continue
			}
			if w, ok := e.witnesses[callee.Name()+"."+ch.Name]; ok {
				// the witness of the callee's existential postcondition
				e.topFrame.entryParams[ch.Name] = w
				continue
			}
			w := e.havocVal(st, t, "chosen_"+ch.Name)
			e.qn++
			bv := fmt.Sprintf("%s_q%d", sanitize(ch.Name), e.qn)
			c1 := cenv.child()
			c1.vars[ch.Name] = Val{T: bv, S: w.S, GoT: t}
			pb := c1.eval(ch.E)
			c2 := cenv.child()
			c2.vars[ch.Name] = w
			pw := c2.eval(ch.E)
			e.ctx.assume(imp(st.pc, imp(fmt.Sprintf("(exists ((%s %s)) %s)", bv, w.S, pb.T), pw.T)))
			e.topFrame.entryParams[ch.Name] = w
		}
	}
	// calls through an interface have no static callee: they are named by the
	// method (last component of the contract key, e.g. io/fs.DirEntry.IsDir)
	calleeName := ""
	if callee != nil {
		calleeName = callee.Name()
	} else if k := strings.LastIndex(key, "."); k >= 0 {
		calleeName = key[k+1:]
	}
	if calleeName != "" && e.topFrame != nil && e.topFrame.spec != nil && fr == e.topFrame {
		for _, gs := range e.topFrame.spec.GhostSets {
			if gs.OnStore != "" {
				continue
			}
			if gs.Callee != calleeName {
				hit := false
				for _, k := range e.siteKeys(fr, calleeName) {
					if k == gs.Callee {
						hit = true
					}
				}
				if !hit {
					continue
				}
			}
			g, ok := e.ss.GhostVars[gs.Var]
			if !ok {
				e.specErrors = append(e.specErrors, "ghostset: unknown ghost variable "+gs.Var)
				continue
			}
			genv := e.specEnv(fr, st, nil)
			for k, v := range fr.entryParams {
				if _, isLocal := fr.locals[k]; !isLocal {
					genv.vars[k] = v
				}
			}
			bindResults(genv.vars, callee, sig, res)
			for i, n := range names {
				if i < len(targs) {
					genv.vars["arg_"+n] = targs[i]
				}
			}
			v := genv.eval(gs.E)
			genv.ghostVar(g) // registers the ghost heap
			e.setHeap(st, "G$"+gs.Var, v.T)
		}
	}
	if callee != nil && e.topFrame != nil && e.topFrame.spec != nil && fr == e.topFrame {
		for _, gi := range e.topFrame.spec.GhostInits {
			if gi.Callee == callee.Name() {
				e.ghostInit(fr, st, gi)
			}
		}
	}
	if callee != nil {
		// lock invariant: available after the lock is acquired
		e.lockInvariant(fr, st, callee, args, true, pos)
		if key == "sync.(*WaitGroup).Wait" && e.spec != nil {
			for _, c := range e.topFrame.spec.AfterWait {
				cenv := e.specEnv(e.topFrame, st, nil)
				for k, v := range e.topFrame.entryParams {
					if _, isLocal := e.topFrame.locals[k]; !isLocal {
						cenv.vars[k] = v
					}
				}
				v := cenv.eval(c.E)
				e.ctx.assume(imp(st.pc, v.T))
				e.trust("fork/join: after sync.WaitGroup.Wait in " + e.key + " it is assumed that " + c.Src + " (established by the spawned goroutines, each of which maintains it under the lock)")
			}
		}
	}
	return e.packResults(res, rt)
}

func bindResults(vars map[string]Val, callee *ssa.Function, sig *types.Signature, res []Val) {
	for i, r := range res {
		vars[fmt.Sprintf("result%d", i)] = r
		if n := sig.Results().At(i).Name(); n != "" && n != "_" {
			if _, clash := vars[n]; !clash {
				vars[n] = r
			}
		}
	}
	if len(res) == 1 {
		vars["result"] = res[0]
	}
}

// loopStoreTargets determines, per heap, the loop-invariant objects that the
// stores inside the loop headed by h may write; unknown[heap] is set when a
// store (or a call) to that heap cannot be attributed to such an object.
func (e *Exec) loopStoreTargets(fr *frame, pre *State, h *ssa.BasicBlock, cells map[*ssa.Alloc]bool) (map[string][]string, map[string]bool) {
	body := fr.loops.body[h]
	targets := map[string][]string{}
	unknown := map[string]bool{}
	// invariantRef resolves a pointer/slice/map SSA value to a term that is the
	// same in every iteration, or "" if it cannot; fresh=true means the object
	// is allocated inside the loop.
	var invariant func(v ssa.Value) (term string, fresh bool, ok bool)
	invariant = func(v ssa.Value) (string, bool, bool) {
		switch x := v.(type) {
		case *ssa.Alloc:
			if body[x.Block()] {
				return "", true, true
			}
			if val, ok := fr.vals[x]; ok && val.T != "" {
				return val.T, false, true
			}
			return "", false, false
		case *ssa.MakeSlice, *ssa.MakeMap:
			if in, ok := v.(ssa.Instruction); ok && body[in.Block()] {
				return "", true, true
			}
		case *ssa.UnOp:
			if x.Op == token.MUL {
				if a, ok := x.X.(*ssa.Alloc); ok && !a.Heap && !cells[a] && !body[a.Block()] {
					if val, ok := pre.cells[a]; ok && val.T != "" {
						return val.T, false, true
					}
				}
			}
		case *ssa.Parameter, *ssa.FreeVar:
			if val, ok := fr.vals[v]; ok && val.T != "" {
				return val.T, false, true
			}
		}
		if in, ok := v.(ssa.Instruction); ok && !body[in.Block()] {
			if val, ok := fr.vals[v]; ok && val.T != "" && val.Bad == "" {
				return val.T, false, true
			}
		}
		return "", false, false
	}
	add := func(heap string, v ssa.Value, isSlice bool) {
		t, fresh, ok := invariant(v)
		if !ok {
			unknown[heap] = true
			return
		}
		if fresh {
			return
		}
		if isSlice {
			t = slRef(t)
		}
		targets[heap] = append(targets[heap], t)
	}
	var addStruct func(t types.Type, v ssa.Value)
	addStruct = func(t types.Type, v ssa.Value) {
		ws := map[string]bool{}
		e.structHeaps(t, ws)
		for _, hname := range sortedKeys(ws) {
			// embedded structs live at emb(ref, i): only handle flat structs
			add(hname, v, false)
		}
		st := t.Underlying().(*types.Struct)
		for i := 0; i < st.NumFields(); i++ {
			if isStruct(st.Field(i).Type()) {
				ws2 := map[string]bool{}
				e.structHeaps(st.Field(i).Type(), ws2)
				for hname := range ws2 {
					unknown[hname] = true
				}
			}
		}
	}
	for _, b := range fr.fn.Blocks {
		if !body[b] {
			continue
		}
		for _, in := range b.Instrs {
			switch x := in.(type) {
			case *ssa.Store:
				switch a := x.Addr.(type) {
				case *ssa.Alloc:
					t := a.Type().Underlying().(*types.Pointer).Elem()
					if isStruct(t) {
						addStruct(t, a)
					} else if isArray(t) {
						add(e.elemHeap(t.Underlying().(*types.Array).Elem()), a, false)
					} else if a.Heap {
						add(e.boxHeap(t), a, false)
					}
				case *ssa.FieldAddr:
					pt := a.X.Type().Underlying().(*types.Pointer).Elem()
					ft := pt.Underlying().(*types.Struct).Field(a.Field).Type()
					if ia, ok := a.X.(*ssa.IndexAddr); ok {
						// field of a struct stored in a slice element
						if sl, ok := ia.X.Type().Underlying().(*types.Slice); ok {
							add(e.elemHeap(sl.Elem()), ia.X, true)
						} else {
							ws := map[string]bool{}
							e.addrWrites(a, ws)
							for k := range ws {
								unknown[k] = true
							}
						}
						continue
					}
					if isStruct(ft) {
						ws := map[string]bool{}
						e.structHeaps(ft, ws)
						for k := range ws {
							unknown[k] = true
						}
						continue
					}
					add(e.fieldHeap(pt, a.Field), a.X, false)
				case *ssa.IndexAddr:
					switch u := a.X.Type().Underlying().(type) {
					case *types.Slice:
						add(e.elemHeap(u.Elem()), a.X, true)
					case *types.Pointer:
						add(e.elemHeap(u.Elem().Underlying().(*types.Array).Elem()), a.X, false)
					}
				default:
					ws := map[string]bool{}
					e.addrWrites(x.Addr, ws)
					for k := range ws {
						unknown[k] = true
					}
				}
			case *ssa.MapUpdate:
				md, mv := e.mapHeaps(x.Map.Type().Underlying().(*types.Map))
				add(md, x.Map, false)
				add(mv, x.Map, false)
			case *ssa.Alloc, *ssa.MakeSlice, *ssa.MakeMap, *ssa.MakeChan, *ssa.DebugRef:
				// allocation inside the loop initialises fresh objects only
			case *ssa.Convert:
				// fresh slice
			case *ssa.Call, *ssa.Defer, *ssa.Go:
				ws := map[string]bool{}
				e.instrWrites(fr.fn, in, ws)
				for k := range ws {
					unknown[k] = true
				}
			}
		}
	}
	return targets, unknown
}

func sortedAllocs(m map[*ssa.Alloc]bool) []*ssa.Alloc {
	out := make([]*ssa.Alloc, 0, len(m))
	for a := range m {
		out = append(out, a)
	}
	sort.Slice(out, func(i, j int) bool {
		if out[i].Pos() != out[j].Pos() {
			return out[i].Pos() < out[j].Pos()
		}
		if out[i].Comment != out[j].Comment {
			return out[i].Comment < out[j].Comment
		}
		return out[i].Name() < out[j].Name()
	})
	return out
}

// funcTypeSpec finds a contract for calls of values of a named function type:
// key "<pkg>.typefunc <TypeName>".
func (e *Exec) funcTypeSpec(c *ssa.CallCommon) *FuncSpec {
	n, ok := c.Value.Type().(*types.Named)
	if !ok {
		return nil
	}
	if _, isSig := n.Underlying().(*types.Signature); !isSig || n.Obj().Pkg() == nil {
		return nil
	}
	if s, ok := e.ss.Funcs[n.Obj().Pkg().Path()+".typefunc "+n.Obj().Name()]; ok {
		return s
	}
	return nil
}

// lockInvariant implements `lockinv Type.field = fn`: fn(owner) may be assumed
// right after Lock/RLock on owner.field and must hold right before Unlock.
func (e *Exec) lockInvariant(fr *frame, st *State, callee *ssa.Function, args []Val, after bool, pos token.Pos) {
	key := funcKey(callee)
	acquire := key == "sync.(*Mutex).Lock" || key == "sync.(*RWMutex).Lock" || key == "sync.(*RWMutex).RLock"
	release := key == "sync.(*Mutex).Unlock" || key == "sync.(*RWMutex).Unlock"
	if !(acquire && after) && !(release && !after) {
		return
	}
	if len(args) == 0 || len(e.ss.LockInvs) == 0 {
		return
	}
	ownerT, fld, ownerV, ok := e.mutexOwner(fr, e.curCallArg0)
	if !ok {
		e.localLockInvariant(fr, st, after, pos)
		return
	}
	name := pkgPathOf(ownerT) + "." + typeShortName(ownerT) + "." + fld
	fn, ok := e.ss.LockInvs[name]
	if !ok {
		return
	}
	sf, ok := e.ss.SpecFns[fn]
	if !ok {
		e.specErrors = append(e.specErrors, "lockinv refers to unknown spec function "+fn)
		return
	}
	env := e.specEnv(e.topFrame, st, nil)
	ov := ownerV
	ov.GoT = types.NewPointer(ownerT)
	env.vars["lk$owner"] = ov
	if after {
		// what the lock protects may have been changed by other threads while
		// this one did not hold it: forget it, then assume the invariant
		penv := e.specEnv(e.topFrame, st, nil)
		penv.vars["owner"] = ov
		penv.spec = &FuncSpec{Pkg: pkgPathOf(ownerT)}
		penv.fn = nil
		pre := st.clone()
		e.havocProtected(fr, st, penv, e.ss.LockProt[name], pos, name)
		env = e.specEnv(e.topFrame, st, nil)
		env.vars["lk$owner"] = ov
		if rely, ok := e.ss.LockRely[name]; ok {
			// every critical section of every thread maintains the rely relation
			// (checked at release), so it relates the forgotten values to the old ones
			renv := e.specEnv(e.topFrame, st, nil)
			renv.old = pre
			renv.vars["owner"] = ov
			renv.spec = &FuncSpec{Pkg: pkgPathOf(ownerT)}
			renv.fn = nil
			rv := renv.eval(rely)
			e.ctx.assume(imp(st.pc, rv.T))
		}
	} else if rely, ok := e.ss.LockRely[name]; ok {
		snap := st.snaps[name+"@"+ov.T]
		if snap == nil {
			e.oblige(fr, st, "lockrely:"+typeShortName(ownerT)+"."+fld, "the state at the acquisition of "+name+" is not unique here; the rely relation cannot be checked", pos, "false")
		} else {
			renv := e.specEnv(e.topFrame, st, nil)
			renv.old = snap
			renv.vars["owner"] = ov
			renv.spec = &FuncSpec{Pkg: pkgPathOf(ownerT)}
			renv.fn = nil
			rv := renv.eval(rely)
			e.oblige(fr, st, "lockrely:"+typeShortName(ownerT)+"."+fld, "critical section maintains the rely relation of "+name, pos, rv.T)
		}
	}
	v := env.specCall(sf, ECall{Fn: fn, Args: []Expr{EIdent{"lk$owner"}}})
	if after {
		e.ctx.assume(imp(st.pc, v.T))
		if _, ok := e.ss.LockRely[name]; ok {
			if st.snaps == nil {
				st.snaps = map[string]*State{}
			}
			st.snaps[name+"@"+ov.T] = st.clone()
		}
		e.trust("lock invariant " + fn + " of " + name + " is assumed on acquisition (it is checked at every release)")
	} else {
		e.oblige(fr, st, "lockinv:"+typeShortName(ownerT)+"."+fld, "lock invariant "+fn+" holds when "+name+" is released", pos, v.T)
	}
}

// mutexOwner recognises &owner.field as the address of a mutex.
func (e *Exec) mutexOwner(fr *frame, v ssa.Value) (types.Type, string, Val, bool) {
	fa, ok := v.(*ssa.FieldAddr)
	if !ok {
		return nil, "", Val{}, false
	}
	pt := fa.X.Type().Underlying().(*types.Pointer).Elem()
	st := pt.Underlying().(*types.Struct)
	ov := e.val(e.curCallFrame, fa.X)
	if ov.T == "" {
		return nil, "", Val{}, false
	}
	return pt, st.Field(fa.Field).Name(), ov, true
}

// defaultStdSpec: a standard-library function without a written contract is
// given the default frame "writes only memory directly reachable from its
// pointer, slice and map arguments" (and returns arbitrary values), provided
// it takes no interface or function arguments through which it could reach
// other memory. The assumption is listed in the evidence for each use.
func (e *Exec) defaultStdSpec(fn *ssa.Function) *FuncSpec {
	if fn == nil || e.inRepo(fn) {
		return nil
	}
	pkg := ""
	if fn.Pkg != nil {
		pkg = fn.Pkg.Pkg.Path()
	} else if fn.Object() != nil && fn.Object().Pkg() != nil {
		pkg = fn.Object().Pkg().Path()
	}
	first := pkg
	if k := strings.Index(pkg, "/"); k >= 0 {
		first = pkg[:k]
	}
	if pkg == "" || strings.Contains(first, ".") || pkg == "sort" || pkg == "sync" || pkg == "container/heap" || pkg == "unsafe" || pkg == "reflect" {
		return nil
	}
	key := funcKey(fn)
	if s, ok := e.defaultSpecs[key]; ok {
		return s
	}
	spec := &FuncSpec{Target: key, Extern: true, HasMod: true, Loops: map[int][]*Clause{}, LoopMods: map[int][]*Clause{}, Skip: map[string]bool{},
		Unroll: map[int]int{}, Line: "default std-lib frame"}
	mc := &Clause{Kind: "modifies", Src: "default", Line: "default std-lib frame"}
	names := paramNames(fn, fn.Signature)
	for i, p := range fn.Params {
		if i >= len(names) {
			break
		}
		switch u := p.Type().Underlying().(type) {
		case *types.Interface, *types.Signature, *types.Chan:
			e.defaultSpecs[key] = nil
			return nil
		case *types.Pointer:
			if isStruct(u.Elem()) {
				mc.Locs = append(mc.Locs, ECall{Fn: "fields", Args: []Expr{EIdent{names[i]}}})
			} else {
				mc.Locs = append(mc.Locs, ECall{Fn: "box", Args: []Expr{EIdent{names[i]}}})
			}
		case *types.Slice:
			mc.Locs = append(mc.Locs, ECall{Fn: "elems", Args: []Expr{EIdent{names[i]}}})
		case *types.Map:
			mc.Locs = append(mc.Locs, ECall{Fn: "entries", Args: []Expr{EIdent{names[i]}}})
		}
	}
	spec.Modifies = []*Clause{mc}
	e.defaultSpecs[key] = spec
	return spec
}

// localLockInvariant: `lockinv local <Func>.<var> = <specfn>(args...)` for a
// mutex that is a local variable of Func (possibly captured by a closure of
// Func that is being verified). The invariant expression is evaluated in the
// scope of the function under verification.
func (e *Exec) localLockInvariant(fr *frame, st *State, after bool, pos token.Pos) {
	name := ""
	switch v := e.curCallArg0.(type) {
	case *ssa.Alloc:
		name = v.Comment
	case *ssa.FreeVar:
		name = v.Name()
	default:
		return
	}
	fn := e.fn
	for fn != nil && fn.Parent() != nil {
		fn = fn.Parent()
	}
	if fn == nil || fn.Pkg == nil {
		return
	}
	key := fn.Pkg.Pkg.Path() + ".local " + fn.Name() + "." + name
	src, ok := e.ss.LockInvs[key]
	if !ok {
		return
	}
	ex, err := parseExpr(src)
	if err != nil {
		e.specErrors = append(e.specErrors, "lockinv "+key+": "+err.Error())
		return
	}
	env := e.specEnv(e.topFrame, st, nil)
	for k, v := range e.topFrame.entryParams {
		if _, isLocal := e.topFrame.locals[k]; !isLocal {
			if _, isCap := e.topFrame.captured[k]; !isCap {
				env.vars[k] = v
			}
		}
	}
	if after {
		e.havocProtected(fr, st, env, e.ss.LockProt[key], pos, key)
		env2 := e.specEnv(e.topFrame, st, nil)
		env2.vars = env.vars
		env = env2
	}
	v := env.eval(ex)
	if after {
		e.ctx.assume(imp(st.pc, v.T))
		e.trust("lock invariant of local mutex " + key + " (" + src + ") is assumed on acquisition (checked at every release)")
	} else {
		e.oblige(fr, st, "lockinv:"+name, "lock invariant "+src+" holds when "+name+" is released", pos, v.T)
	}
}

// checkGuarantees: the `guarantee` clauses of the function under verification
// (a goroutine body) must hold whenever it makes its writes visible: at every
// lock release and when it returns.
func (e *Exec) checkGuarantees(fr *frame, st *State, pos token.Pos) {
	if e.spec == nil || e.topFrame == nil {
		return
	}
	for _, c := range e.topFrame.spec.Guarantees {
		env := e.specEnv(e.topFrame, st, nil)
		for k, v := range e.topFrame.entryParams {
			if _, isLocal := e.topFrame.locals[k]; !isLocal {
				env.vars[k] = v
			}
		}
		v := env.eval(c.E)
		e.oblige(fr, st, "guarantee", "guarantee "+c.Src+" holds when writes become visible", pos, v.T)
	}
}

// existsForm recognises `exists x :: P` and `G ==> (exists x :: P)`.
func existsForm(e Expr) (EQuant, Expr, bool) {
	if q, ok := e.(EQuant); ok && !q.Forall {
		return q, nil, true
	}
	if b, ok := e.(EBin); ok && b.Op == "==>" {
		if q, ok := b.R.(EQuant); ok && !q.Forall {
			return q, b.L, true
		}
	}
	return EQuant{}, nil, false
}

// ghostInit: `ghostinit f x = e after callee`. f is an uninterpreted
// specification function of one pointer argument, x a local variable of the
// function under verification whose address is taken (so &x is an object
// allocated by this activation, about which f has no other constraint): the
// ghost value f(&x) is fixed to e. Sound because it happens at most once per
// object: the clause must be the only one for (f, x) and its call site must be
// unique and outside every loop.
func (e *Exec) ghostInit(fr *frame, st *State, gi GhostInit) {
	bad := func(f string, a ...any) {
		e.specErrors = append(e.specErrors, "ghostinit ("+gi.Line+"): "+fmt.Sprintf(f, a...))
	}
	sf, ok := e.ss.SpecFns[gi.Fn]
	if !ok || sf.Body != nil || len(sf.Params) != 1 {
		bad("%s is not an uninterpreted specification function of one argument", gi.Fn)
		return
	}
	n := 0
	for _, g := range e.topFrame.spec.GhostInits {
		if g.Fn == gi.Fn && g.Local == gi.Local {
			n++
		}
	}
	if n != 1 {
		bad("more than one ghostinit for %s(&%s)", gi.Fn, gi.Local)
		return
	}
	sites := 0
	for _, b := range e.fn.Blocks {
		for _, in := range b.Instrs {
			c, ok := in.(ssa.CallInstruction)
			if !ok {
				continue
			}
			if f := c.Common().StaticCallee(); f != nil && f.Name() == gi.Callee {
				sites++
				for _, body := range fr.loops.body {
					if body[b] {
						bad("the call of %s is inside a loop", gi.Callee)
						return
					}
				}
			}
		}
	}
	if sites != 1 {
		bad("%d call sites of %s (need exactly one)", sites, gi.Callee)
		return
	}
	allocs := fr.locals[gi.Local]
	if len(allocs) != 1 || !allocs[0].Heap {
		bad("%s is not a unique address-taken local variable", gi.Local)
		return
	}
	for _, b := range e.fn.Blocks {
		for _, body := range fr.loops.body {
			if body[b] && allocs[0].Block() == b {
				bad("%s is allocated inside a loop", gi.Local)
				return
			}
		}
	}
	env := e.specEnv(fr, st, nil)
	for k, v := range fr.entryParams {
		if _, isLocal := fr.locals[k]; !isLocal {
			env.vars[k] = v
		}
	}
	lhs := env.eval(ECall{Fn: gi.Fn, Args: []Expr{EUn{Op: "&", X: EIdent{gi.Local}}}})
	rhs := env.eval(gi.E)
	e.ctx.assume(imp(st.pc, eq(lhs.T, rhs.T)))
	e.trust("ghost initialisation " + gi.Src + " in " + e.key + " (the ghost argument of a lock created by this activation; unconstrained before)")
}

// havocProtected forgets the locations a lock protects (its `protects`
// list), evaluated in env, at the moment the lock is acquired.
func (e *Exec) havocProtected(fr *frame, st *State, env *SpecEnv, locs []Expr, pos token.Pos, what string) {
	if len(locs) == 0 {
		return
	}
	var mods []heapLoc
	ws := map[string]bool{}
	for _, l := range locs {
		for _, hl := range env.evalLoc(l) {
			if hl.heap == "*" {
				e.specErrors = append(e.specErrors, "lockinv "+what+": since() cannot be used in `protects`")
				continue
			}
			mods = append(mods, hl)
			ws[hl.heap] = true
		}
	}
	e.havocWrites(fr, st, ws, mods, &FuncSpec{HasMod: true}, pos, "acquire "+what)
	e.trust("on acquiring " + what + " the locations it protects are forgotten (other threads may have changed them)")
}

// closureEnv: an environment in which the captured variables of a closure are
// named by their content (as in the closure's own contract).
func (e *Exec) closureEnv(fr *frame, st *State, clo *Closure, cs *FuncSpec) *SpecEnv {
	env := &SpecEnv{ex: e, st: st, old: st, vars: map[string]Val{}, fn: clo.Fn, spec: cs, callerFr: fr, addrs: map[string]Val{}}
	for i, fvv := range clo.Fn.FreeVars {
		if i < len(clo.Bindings) && clo.Bindings[i].T != "" {
			t := fvv.Type().Underlying().(*types.Pointer).Elem()
			env.vars[fvv.Name()] = env.loadRef(clo.Bindings[i].T, t)
			env.addrs[fvv.Name()] = Val{T: clo.Bindings[i].T, S: sInt, GoT: fvv.Type()}
		}
	}
	return env
}

// ghostOnStore: `ghostset g = expr onstore v [in loop n]`: ghost assignment
// right after a store to the local variable v of the function under
// verification; expr may mention `value` (stored) and `oldvalue` (overwritten).
func (e *Exec) ghostOnStore(fr *frame, st *State, a *ssa.Alloc, oldV, newV Val, blk *ssa.BasicBlock) {
	if fr != e.topFrame || fr.spec == nil {
		return
	}
	for _, gs := range fr.spec.GhostSets {
		if gs.OnStore == "" || gs.OnStore != a.Comment {
			continue
		}
		if gs.InLoop > 0 {
			if gs.InLoop > len(fr.loops.headers) {
				e.specErrors = append(e.specErrors, "ghostset ("+gs.Line+"): no loop "+fmt.Sprint(gs.InLoop))
				continue
			}
			h := fr.loops.headers[gs.InLoop-1]
			if !fr.loops.body[h][blk] || blk == h && false {
				continue
			}
		}
		g, ok := e.ss.GhostVars[gs.Var]
		if !ok {
			e.specErrors = append(e.specErrors, "ghostset: unknown ghost variable "+gs.Var)
			continue
		}
		genv := e.specEnv(fr, st, nil)
		for k, v := range fr.entryParams {
			if _, isLocal := fr.locals[k]; !isLocal {
				genv.vars[k] = v
			}
		}
		t := a.Type().Underlying().(*types.Pointer).Elem()
		newV.GoT, oldV.GoT = t, t
		genv.vars["value"] = newV
		genv.vars["oldvalue"] = oldV
		v := genv.eval(gs.E)
		genv.ghostVar(g)
		e.setHeap(st, "G$"+gs.Var, v.T)
	}
}

// siteKeys: the names "callee#k" and possibly "callee#last" of the call that
// is being executed, k being its 1-based position among the static call
// sites of callee in the function, in source order.
func (e *Exec) siteKeys(fr *frame, callee string) []string {
	return e.siteKeysOf(fr, callee, e.curCall)
}

func (e *Exec) siteKeysOf(fr *frame, callee string, cur *ssa.CallCommon) []string {
	if cur == nil || fr.fn == nil {
		return nil
	}
	// sites in source order
	var sites []ssa.CallInstruction
	for _, b := range fr.fn.Blocks {
		for _, in := range b.Instrs {
			ci, ok := in.(ssa.CallInstruction)
			if !ok {
				continue
			}
			if f := ci.Common().StaticCallee(); f != nil && f.Name() == callee {
				sites = append(sites, ci)
			}
		}
	}
	sort.SliceStable(sites, func(a, b int) bool { return sites[a].Pos() < sites[b].Pos() })
	k, total := 0, len(sites)
	for idx, ci := range sites {
		if ci.Common() == cur {
			k = idx + 1
		}
	}
	if k == 0 {
		return nil
	}
	out := []string{fmt.Sprintf("%s#%d", callee, k)}
	if k == total {
		out = append(out, callee+"#last")
	}
	return out
}
