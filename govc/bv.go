package main

import (
	"fmt"
	"go/token"
	"go/types"
	"math"
	"math/big"
)

// Bit-precise mode (`arith bv`): Go integers are bit-vectors of their width,
// float64 is IEEE binary64 with round-to-nearest-even. Only scalar code is
// supported in this mode (no slices, maps or pointers): it is meant for the
// arithmetic leaf functions whose result value a property constrains.

func bvWidth(t types.Type) (int, bool) {
	b, ok := t.Underlying().(*types.Basic)
	if !ok {
		return 64, true
	}
	switch b.Kind() {
	case types.Int8:
		return 8, true
	case types.Uint8:
		return 8, false
	case types.Int16:
		return 16, true
	case types.Uint16:
		return 16, false
	case types.Int32:
		return 32, true
	case types.Uint32:
		return 32, false
	case types.Uint, types.Uint64, types.Uintptr:
		return 64, false
	}
	return 64, true
}

func bvSort(w int) string { return fmt.Sprintf("(_ BitVec %d)", w) }

func bvLit(v *big.Int, w int) string {
	m := new(big.Int).Lsh(big.NewInt(1), uint(w))
	x := new(big.Int).Mod(v, m)
	return fmt.Sprintf("(_ bv%s %d)", x.String(), w)
}

func fpLit(f float64) string {
	return fmt.Sprintf("((_ to_fp 11 53) #x%016x)", math.Float64bits(f))
}

func (e *Exec) binopBV(fr *frame, st *State, op token.Token, x, y Val, xt, rt types.Type, pos token.Pos) Val {
	s := e.ctx.sortOf(xt)
	b := func(t string) Val { return Val{T: t, S: sBool} }
	if s == sF {
		switch op {
		case token.ADD:
			return Val{T: app("fp.add", "RNE", x.T, y.T), S: sF}
		case token.SUB:
			return Val{T: app("fp.sub", "RNE", x.T, y.T), S: sF}
		case token.MUL:
			return Val{T: app("fp.mul", "RNE", x.T, y.T), S: sF}
		case token.QUO:
			return Val{T: app("fp.div", "RNE", x.T, y.T), S: sF}
		case token.EQL:
			return b(app("fp.eq", x.T, y.T))
		case token.NEQ:
			return b(not(app("fp.eq", x.T, y.T)))
		case token.LSS:
			return b(app("fp.lt", x.T, y.T))
		case token.LEQ:
			return b(app("fp.leq", x.T, y.T))
		case token.GTR:
			return b(app("fp.gt", x.T, y.T))
		case token.GEQ:
			return b(app("fp.geq", x.T, y.T))
		}
	}
	if s == sBool {
		switch op {
		case token.EQL:
			return b(eq(x.T, y.T))
		case token.NEQ:
			return b(not(eq(x.T, y.T)))
		}
	}
	if _, isBasic := xt.Underlying().(*types.Basic); isBasic && s != sStr && s != sBool {
		w, signed := bvWidth(xt)
		cmp := func(sop, uop string) Val {
			if signed {
				return b(app(sop, x.T, y.T))
			}
			return b(app(uop, x.T, y.T))
		}
		switch op {
		case token.ADD:
			return Val{T: app("bvadd", x.T, y.T), S: s}
		case token.SUB:
			return Val{T: app("bvsub", x.T, y.T), S: s}
		case token.MUL:
			return Val{T: app("bvmul", x.T, y.T), S: s}
		case token.QUO, token.REM:
			e.oblige(fr, st, "div", "integer division by zero", pos, not(eq(y.T, bvLit(big.NewInt(0), w))))
			name := map[bool]map[token.Token]string{true: {token.QUO: "bvsdiv", token.REM: "bvsrem"}, false: {token.QUO: "bvudiv", token.REM: "bvurem"}}[signed][op]
			return Val{T: app(name, x.T, y.T), S: s}
		case token.AND:
			return Val{T: app("bvand", x.T, y.T), S: s}
		case token.OR:
			return Val{T: app("bvor", x.T, y.T), S: s}
		case token.XOR:
			return Val{T: app("bvxor", x.T, y.T), S: s}
		case token.EQL:
			return b(eq(x.T, y.T))
		case token.NEQ:
			return b(not(eq(x.T, y.T)))
		case token.LSS:
			return cmp("bvslt", "bvult")
		case token.LEQ:
			return cmp("bvsle", "bvule")
		case token.GTR:
			return cmp("bvsgt", "bvugt")
		case token.GEQ:
			return cmp("bvsge", "bvuge")
		}
	}
	switch op {
	case token.EQL:
		return b(eq(x.T, y.T))
	case token.NEQ:
		return b(not(eq(x.T, y.T)))
	}
	e.note("%s: operator %s not modelled in bv mode: result havoced", e.w.pos(pos), op)
	return e.havocVal(st, rt, "binop")
}

func (e *Exec) convertBV(fr *frame, st *State, x Val, from, to types.Type, pos token.Pos) Val {
	fs, ts := e.ctx.sortOf(from), e.ctx.sortOf(to)
	_, fbasic := from.Underlying().(*types.Basic)
	_, tbasic := to.Underlying().(*types.Basic)
	if !fbasic || !tbasic {
		return e.havocVal(st, to, "conv")
	}
	switch {
	case fs == sF && ts == sF:
		return x
	case fs != sF && ts == sF && fs != sStr && fs != sBool:
		_, signed := bvWidth(from)
		if signed {
			return Val{T: app("(_ to_fp 11 53)", "RNE", x.T), S: sF}
		}
		return Val{T: app("(_ to_fp_unsigned 11 53)", "RNE", x.T), S: sF}
	case fs == sF && ts != sF && ts != sStr && ts != sBool:
		w, signed := bvWidth(to)
		// Go: the result of converting an out-of-range or NaN float to an integer
		// is implementation-specific; require it to be in range.
		var lo, hi float64
		if signed {
			lo, hi = -math.Ldexp(1, w-1), math.Ldexp(1, w-1)
		} else {
			lo, hi = -1, math.Ldexp(1, w)
		}
		inRange := and(not(app("fp.isNaN", x.T)), app("fp.lt", fpLit(lo-btoF(signed)), x.T), app("fp.lt", x.T, fpLit(hi)))
		if signed {
			inRange = and(not(app("fp.isNaN", x.T)), app("fp.geq", x.T, fpLit(lo)), app("fp.lt", x.T, fpLit(hi)))
		}
		e.oblige(fr, st, "f2i", "float to integer conversion is in range (no NaN, no overflow)", pos, inRange)
		if signed {
			return Val{T: app(fmt.Sprintf("(_ fp.to_sbv %d)", w), "RTZ", x.T), S: ts}
		}
		return Val{T: app(fmt.Sprintf("(_ fp.to_ubv %d)", w), "RTZ", x.T), S: ts}
	case fs != sF && ts != sF && fs != sStr && ts != sStr && fs != sBool:
		fw, fsigned := bvWidth(from)
		tw, _ := bvWidth(to)
		switch {
		case fw == tw:
			return Val{T: x.T, S: ts}
		case fw > tw:
			return Val{T: app(fmt.Sprintf("(_ extract %d 0)", tw-1), x.T), S: ts}
		case fsigned:
			return Val{T: app(fmt.Sprintf("(_ sign_extend %d)", tw-fw), x.T), S: ts}
		default:
			return Val{T: app(fmt.Sprintf("(_ zero_extend %d)", tw-fw), x.T), S: ts}
		}
	}
	return e.havocVal(st, to, "conv")
}

func btoF(b bool) float64 {
	if b {
		return 1
	}
	return 0
}
