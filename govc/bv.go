package main

import (
	"go/token"
	"go/types"
)

func (e *Exec) binopBV(fr *frame, st *State, op token.Token, x, y Val, xt, rt types.Type, pos token.Pos) Val {
	panic("bv mode not implemented yet")
}

func (e *Exec) convertBV(fr *frame, st *State, x Val, from, to types.Type, pos token.Pos) Val {
	panic("bv mode not implemented yet")
}
