package main

import "strings"

// Minimal S-expression support used to split conjunctive goals into separate
// obligations (solvers do much better on the pieces).

type sx struct {
	atom string
	list []*sx
}

func parseSx(s string) *sx {
	pos := 0
	var rec func() *sx
	rec = func() *sx {
		for pos < len(s) && (s[pos] == ' ' || s[pos] == '\n') {
			pos++
		}
		if pos >= len(s) {
			return nil
		}
		if s[pos] == '(' {
			pos++
			n := &sx{}
			for {
				for pos < len(s) && (s[pos] == ' ' || s[pos] == '\n') {
					pos++
				}
				if pos >= len(s) {
					return n
				}
				if s[pos] == ')' {
					pos++
					return n
				}
				c := rec()
				if c == nil {
					return n
				}
				n.list = append(n.list, c)
			}
		}
		start := pos
		if s[pos] == '|' {
			pos++
			for pos < len(s) && s[pos] != '|' {
				pos++
			}
			pos++
		} else {
			for pos < len(s) && s[pos] != ' ' && s[pos] != ')' && s[pos] != '(' && s[pos] != '\n' {
				pos++
			}
		}
		return &sx{atom: s[start:pos]}
	}
	return rec()
}

func (n *sx) String() string {
	if n.list == nil && n.atom != "" {
		return n.atom
	}
	var b strings.Builder
	n.write(&b)
	return b.String()
}

func (n *sx) write(b *strings.Builder) {
	if n.list == nil && n.atom != "" {
		b.WriteString(n.atom)
		return
	}
	b.WriteByte('(')
	for i, c := range n.list {
		if i > 0 {
			b.WriteByte(' ')
		}
		c.write(b)
	}
	b.WriteByte(')')
}

func (n *sx) head() string {
	if len(n.list) > 0 && n.list[0].list == nil {
		return n.list[0].atom
	}
	return ""
}

func mkList(xs ...*sx) *sx { return &sx{list: xs} }
func mkAtom(a string) *sx  { return &sx{atom: a} }

// splitConj returns goals whose conjunction is equivalent to n.
func splitConj(n *sx, depth int) []*sx {
	if depth > 12 || n == nil {
		return []*sx{n}
	}
	switch n.head() {
	case "and":
		var out []*sx
		for _, c := range n.list[1:] {
			out = append(out, splitConj(c, depth+1)...)
		}
		return out
	case "=>":
		if len(n.list) == 3 {
			var out []*sx
			for _, c := range splitConj(n.list[2], depth+1) {
				out = append(out, mkList(mkAtom("=>"), n.list[1], c))
			}
			return out
		}
	case "forall":
		if len(n.list) == 3 {
			body := n.list[2]
			// (! body :pattern ...) is kept whole
			if body.head() == "!" {
				return []*sx{n}
			}
			var out []*sx
			for _, c := range splitConj(body, depth+1) {
				out = append(out, mkList(mkAtom("forall"), n.list[1], c))
			}
			return out
		}
	}
	return []*sx{n}
}

// splitGoal splits an SMT goal into conjunct goals (as text).
func splitGoal(goal string) []string {
	if len(goal) < 200 {
		return []string{goal}
	}
	n := parseSx(goal)
	if n == nil {
		return []string{goal}
	}
	parts := splitConj(n, 0)
	if len(parts) <= 1 {
		return []string{goal}
	}
	if len(parts) > 40 {
		return []string{goal}
	}
	out := make([]string, len(parts))
	for i, p := range parts {
		out[i] = p.String()
	}
	return out
}
