package main

import (
	"runtime"
	"context"
	"fmt"
	"os"
	"os/exec"
	"path/filepath"
	"strings"
	"sync"
	"time"
)

type solverDef struct {
	name string
	cmd  func(file string, timeoutS int) []string
}

var solvers = []solverDef{
	{"z3-new", func(f string, t int) []string { return []string{"z3-new", fmt.Sprintf("-T:%d", t), f} }},
	{"z3", func(f string, t int) []string { return []string{"z3", fmt.Sprintf("-T:%d", t), f} }},
	{"cvc5", func(f string, t int) []string {
		return []string{"cvc5", "--incremental", fmt.Sprintf("--tlimit=%d", t*1000), f}
	}},
}

type solveOpts struct {
	timeout  int  // seconds per solver per obligation
	workers  int
	agree    bool // thorough: run all solvers, none may say sat
	keepDir  string
	only     map[string]bool
}

// procSem bounds the number of solver processes that run at the same time,
// so that timeouts measure solver effort and not scheduling delay.
var procSem = make(chan struct{}, maxProcs())

func maxProcs() int {
	n := runtime.NumCPU()
	if n < 2 {
		return 2
	}
	return n
}

func runSolver(sd solverDef, file string, timeout int) (string, string, float64) {
	procSem <- struct{}{}
	defer func() { <-procSem }()
	ctx, cancel := context.WithTimeout(context.Background(), time.Duration(timeout+2)*time.Second)
	defer cancel()
	args := sd.cmd(file, timeout)
	cmd := exec.CommandContext(ctx, args[0], args[1:]...)
	t0 := time.Now()
	out, _ := cmd.CombinedOutput()
	dt := time.Since(t0).Seconds()
	s := string(out)
	first := ""
	for _, ln := range strings.Split(s, "\n") {
		ln = strings.TrimSpace(ln)
		if ln == "" || strings.HasPrefix(ln, "WARNING") || strings.Contains(ln, "conda") {
			continue
		}
		first = ln
		break
	}
	switch {
	case first == "unsat":
		return "unsat", s, dt
	case first == "sat":
		return "sat", s, dt
	case first == "unknown":
		return "unknown", s, dt
	case strings.HasPrefix(first, "timeout") || ctx.Err() != nil:
		return "timeout", s, dt
	case strings.Contains(first, "interrupted"):
		return "timeout", s, dt
	}
	return "error:" + first, s, dt
}

// solveAll discharges the obligations with a solver portfolio.
func solveAll(obls []*Obligation, opts solveOpts) {
	dir, err := os.MkdirTemp("", "govc-smt-")
	if err != nil {
		panic(err)
	}
	if opts.keepDir == "" {
		defer os.RemoveAll(dir)
	} else {
		dir = opts.keepDir
		os.MkdirAll(dir, 0o755)
	}
	var wg sync.WaitGroup
	ch := make(chan int)
	for w := 0; w < opts.workers; w++ {
		wg.Add(1)
		go func() {
			defer wg.Done()
			for i := range ch {
				solveOne(obls[i], i, dir, opts)
			}
		}()
	}
	for i := range obls {
		ch <- i
	}
	close(ch)
	wg.Wait()
}

func solveOne(o *Obligation, idx int, dir string, opts solveOpts) {
	o.Answers = map[string]string{}
	text := o.render()
	file := filepath.Join(dir, fmt.Sprintf("o%05d.smt2", idx))
	if opts.keepDir != "" {
		file = filepath.Join(dir, sanitize(o.Name)+".smt2")
	}
	if err := os.WriteFile(file, []byte(text), 0o644); err != nil {
		o.Status = "error"
		return
	}
	want := "unsat"
	if o.Vacuity {
		// reachability / satisfiability cover: the hypotheses must NOT prove
		// false. Finding a model of quantified hypotheses is out of reach for
		// the solvers, so the cover passes unless some solver derives unsat.
		t := 1
		n := 1
		if opts.agree {
			t, n = 10, len(solvers)
		}
		o.Status, o.Backend = "discharged", "cover(not-unsat)"
		for _, sd := range solvers[:n] {
			a, _, dt := runSolver(sd, file, t)
			o.Answers[sd.name] = a
			o.Time += dt
			if a == "unsat" {
				o.Status, o.Backend = "failed", sd.name
			}
			if a == "sat" {
				o.Backend = "cover(sat:" + sd.name + ")"
				break
			}
		}
		return
	}
	if o.Soft {
		// soft obligations (machine-integer overflow) get one short attempt
		t := 1
		if opts.agree {
			t = 5
		}
		a, _, dt := runSolver(solvers[0], file, t)
		o.Answers[solvers[0].name] = a
		o.Time = dt
		if a == "unsat" {
			o.Status, o.Backend = "discharged", solvers[0].name
		} else {
			o.Status = "unknown"
		}
		return
	}
	if o.goal == "true" && !o.Vacuity {
		o.Status, o.Backend = "discharged", "govc-trivial"
		return
	}
	// stage 1: fast attempt with z3-new (skipped for bit-vector/floating-point
	// queries, where cvc5 is usually the one that answers)
	quick := 2
	if opts.timeout < quick {
		quick = opts.timeout
	}
	ans := "skipped"
	if !o.ctx.bv {
		var out string
		var dt float64
		ans, out, dt = runSolver(solvers[0], file, quick)
		o.Answers[solvers[0].name] = ans
		o.Time += dt
		if ans == want && !opts.agree {
			o.Status, o.Backend = "discharged", solvers[0].name
			return
		}
		if ans == "sat" && !o.Vacuity {
			o.Model = trimModel(out)
		}
	}
	if (ans == "sat" || ans == "unsat") && ans != want && !opts.agree {
		// a definite opposite answer: still ask the others (a solver bug or
		// incompleteness on quantifiers could be involved) but with short timeout
	}
	// stage 2: race all solvers
	type r struct {
		name, ans, out string
		dt             float64
	}
	rc := make(chan r, len(solvers))
	n := 0
	for i, sd := range solvers {
		if i == 0 && quick >= opts.timeout && ans != "timeout" && ans != "skipped" {
			continue
		}
		n++
		to := opts.timeout
		if o.ctx.bv && to < 120 {
			to = 120 // bit-precise float queries are slower; keep a wide margin
		}
		go func(sd solverDef) {
			a, out, dt := runSolver(sd, file, to)
			rc <- r{sd.name, a, out, dt}
		}(sd)
	}
	got := ""
	for i := 0; i < n; i++ {
		x := <-rc
		o.Answers[x.name] = x.ans
		if x.dt > o.Time {
			o.Time = x.dt
		}
		if x.ans == want && got == "" {
			got = x.name
			if !opts.agree {
				// do not wait for the others (they are killed by their own timeouts)
				break
			}
		}
		if x.ans == "sat" && !o.Vacuity && o.Model == "" {
			o.Model = trimModel(x.out)
		}
	}
	if got != "" {
		if opts.agree {
			for _, a := range o.Answers {
				if (want == "unsat" && a == "sat") || (want == "sat" && a == "unsat") {
					o.Status = "failed"
					return
				}
			}
		}
		o.Status, o.Backend = "discharged", got
		return
	}
	o.Status = "failed"
	for _, a := range o.Answers {
		if a != "sat" && a != "unsat" {
			o.Status = "unknown"
		}
	}
	for _, a := range o.Answers {
		if (want == "unsat" && a == "sat") || (want == "sat" && a == "unsat") {
			o.Status = "failed"
		}
	}
}

func trimModel(out string) string {
	if i := strings.Index(out, "\n"); i >= 0 {
		out = out[i+1:]
	}
	if len(out) > 20000 {
		out = out[:20000] + "\n...(truncated)"
	}
	return out
}
