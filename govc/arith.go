package main

import (
	"fmt"
	"strings"
	"go/token"
	"go/types"
)

func isUnsigned(t types.Type) bool {
	b, ok := t.Underlying().(*types.Basic)
	return ok && b.Info()&types.IsUnsigned != 0
}

func (e *Exec) binop(fr *frame, st *State, op token.Token, x, y Val, xt, rt types.Type, pos token.Pos) Val {
	if e.ctx.bv {
		return e.binopBV(fr, st, op, x, y, xt, rt, pos)
	}
	s := e.ctx.sortOf(xt)
	b := func(t string) Val { return Val{T: t, S: sBool} }
	switch s {
	case sF:
		switch op {
		case token.ADD:
			return Val{T: app("f_add", x.T, y.T), S: sF}
		case token.SUB:
			return Val{T: app("f_sub", x.T, y.T), S: sF}
		case token.MUL:
			return Val{T: app("f_mul", x.T, y.T), S: sF}
		case token.QUO:
			return Val{T: app("f_div", x.T, y.T), S: sF}
		case token.EQL:
			return b(app("f_eq", x.T, y.T))
		case token.NEQ:
			return b(not(app("f_eq", x.T, y.T)))
		case token.LSS:
			return b(app("f_lt", x.T, y.T))
		case token.LEQ:
			return b(app("f_le", x.T, y.T))
		case token.GTR:
			return b(app("f_lt", y.T, x.T))
		case token.GEQ:
			return b(app("f_le", y.T, x.T))
		}
	case sStr:
		switch op {
		case token.ADD:
			return Val{T: app("scat", x.T, y.T), S: sStr}
		case token.EQL, token.NEQ:
			if strings.HasPrefix(x.T, "(runes_str ") || strings.HasPrefix(y.T, "(runes_str ") {
				// extensionality, instantiated for this comparison: strings of equal
				// length with equal bytes are equal
				e.qn++
				k := fmt.Sprintf("k_q%d", e.qn)
				e.ctx.assume(imp(st.pc, imp(and(eq(app("slen", x.T), app("slen", y.T)),
					fmt.Sprintf("(forall ((%s Int)) (! (=> (and (<= 0 %s) (< %s (slen %s))) (= (sat %s %s) (sat %s %s))) :pattern ((sat %s %s))))", k, k, k, x.T, x.T, k, y.T, k, x.T, k)),
					eq(x.T, y.T))))
			}
			if op == token.EQL {
				return b(eq(x.T, y.T))
			}
			return b(not(eq(x.T, y.T)))
		default:
			switch op {
			case token.LSS:
				return b(app("s_lt", x.T, y.T))
			case token.GTR:
				return b(app("s_lt", y.T, x.T))
			case token.LEQ:
				return b(not(app("s_lt", y.T, x.T)))
			case token.GEQ:
				return b(not(app("s_lt", x.T, y.T)))
			}
		}
	case sBool:
		switch op {
		case token.EQL:
			return b(eq(x.T, y.T))
		case token.NEQ:
			return b(not(eq(x.T, y.T)))
		case token.AND, token.LAND:
			return b(and(x.T, y.T))
		case token.OR, token.LOR:
			return b(or(x.T, y.T))
		}
	case sInt:
		switch op {
		case token.EQL:
			return b(eq(x.T, y.T))
		case token.NEQ:
			return b(not(eq(x.T, y.T)))
		case token.LSS:
			return b(lt(x.T, y.T))
		case token.LEQ:
			return b(le(x.T, y.T))
		case token.GTR:
			return b(lt(y.T, x.T))
		case token.GEQ:
			return b(le(y.T, x.T))
		}
		if _, isBasic := xt.Underlying().(*types.Basic); !isBasic {
			break
		}
		var r string
		switch op {
		case token.ADD:
			r = add(x.T, y.T)
		case token.SUB:
			r = sub(x.T, y.T)
		case token.MUL:
			r = "(* " + x.T + " " + y.T + ")"
		case token.QUO, token.REM:
			e.oblige(fr, st, "div", "integer division by zero", pos, not(eq(y.T, "0")))
			q := "(ite (= (< " + x.T + " 0) (< " + y.T + " 0)) (div (abs " + x.T + ") (abs " + y.T + ")) (- (div (abs " + x.T + ") (abs " + y.T + "))))"
			if op == token.QUO {
				r = q
			} else {
				r = "(- " + x.T + " (* " + y.T + " " + q + "))"
			}
			return Val{T: r, S: sInt}
		case token.SHL:
			if k, ok := smallConst(y.T); ok {
				r = "(* " + x.T + " " + num(int64(1)<<uint(k)) + ")"
			}
		case token.SHR:
			if k, ok := smallConst(y.T); ok {
				r = "(div " + x.T + " " + num(int64(1)<<uint(k)) + ")"
			}
		case token.AND:
			if k, ok := smallConst(y.T); ok && k >= 0 {
				h := e.havocVal(st, rt, "and")
				e.ctx.assume(imp(st.pc, and(le("0", h.T), le(h.T, y.T))))
				return h
			}
		}
		if r == "" {
			e.note("%s: integer operator %s not modelled: result havoced", e.w.pos(pos), op)
			return e.havocVal(st, rt, "binop")
		}
		// machine arithmetic: result wraps; record a soft overflow obligation
		lo, hi := intRange(rt.Underlying().(*types.Basic))
		inRange := and(le(lo, r), le(r, hi))
		o := e.oblige(fr, st, "ovf", "integer arithmetic stays in range (otherwise treated as mathematical)", pos, inRange)
		if o != nil {
			o.Soft = true
		}
		return Val{T: r, S: sInt}
	case sIface:
		switch op {
		case token.EQL:
			return b(eq(x.T, y.T))
		case token.NEQ:
			return b(not(eq(x.T, y.T)))
		}
	case sSlice:
		// only comparison with nil is legal
		switch op {
		case token.EQL:
			return b(eq(slRef(x.T), slRef(y.T)))
		case token.NEQ:
			return b(not(eq(slRef(x.T), slRef(y.T))))
		}
	default:
		switch op {
		case token.EQL:
			return b(eq(x.T, y.T))
		case token.NEQ:
			return b(not(eq(x.T, y.T)))
		}
	}
	e.note("%s: operator %s on %s not modelled: result havoced", e.w.pos(pos), op, xt)
	return e.havocVal(st, rt, "binop")
}

func smallConst(t string) (int, bool) {
	n := 0
	if len(t) == 0 || len(t) > 2 {
		return 0, false
	}
	for _, c := range t {
		if c < '0' || c > '9' {
			return 0, false
		}
		n = n*10 + int(c-'0')
	}
	return n, n < 62
}

func (e *Exec) convert(fr *frame, st *State, x Val, from, to types.Type, pos token.Pos) Val {
	if e.ctx.bv {
		return e.convertBV(fr, st, x, from, to, pos)
	}
	fs, ts := e.ctx.sortOf(from), e.ctx.sortOf(to)
	fb, _ := from.Underlying().(*types.Basic)
	tb, _ := to.Underlying().(*types.Basic)
	switch {
	case fs == sInt && ts == sInt && fb != nil && tb != nil:
		flo, fhi := intRange(fb)
		tlo, thi := intRange(tb)
		if rangeWithin(flo, fhi, tlo, thi) {
			return Val{T: x.T, S: sInt}
		}
		h := e.havocVal(st, to, "conv")
		e.ctx.assume(imp(st.pc, imp(and(le(tlo, x.T), le(x.T, thi)), eq(h.T, x.T))))
		return h
	case fs == sInt && ts == sF:
		return Val{T: app("i2f", x.T), S: sF}
	case fs == sF && ts == sInt:
		h := e.havocVal(st, to, "f2i")
		e.ctx.assume(imp(st.pc, eq(h.T, app("f2i", x.T))))
		return h
	case fs == sF && ts == sF:
		return x
	case fs == sInt && ts == sStr:
		e.ctx.declareFun("spec$runeString", []string{sInt}, sStr)
		r := app("spec$runeString", x.T)
		e.ctx.assume(imp(st.pc, and(le("1", app("slen", r)), le(app("slen", r), "4"),
			imp(and(le("0", x.T), lt(x.T, "128")), and(eq(app("slen", r), "1"), eq(app("sat", r, "0"), x.T))))))
		e.trust("string(rune) has 1..4 bytes; ASCII runes give the single byte")
		return Val{T: r, S: sStr}
	case fs == sStr && ts == sSlice:
		el := to.Underlying().(*types.Slice).Elem()
		r := e.alloc(st)
		h := e.elemHeap(el)
		if eb, ok := el.Underlying().(*types.Basic); ok && eb.Kind() == types.Uint8 {
			e.declareByteStr()
			e.setHeap(st, h, sto(e.heapTerm(st, h), r, app("str_bytes", x.T)))
			return Val{T: mkSlice(r, "0", app("slen", x.T), app("slen", x.T)), S: sSlice}
		}
		// []rune(s)
		e.ctx.declareFun("str_runes", []string{sStr}, arraySort(sInt, sInt))
		e.ctx.declareFun("str_nrunes", []string{sStr}, sInt)
		n := app("str_nrunes", x.T)
		e.ctx.assume(imp(st.pc, and(le("0", n), le(n, app("slen", x.T)), imp(lt("0", app("slen", x.T)), lt("0", n)))))
		e.trust("[]rune(s) has between 0 and len(s) elements, at least one if s is non-empty")
		e.setHeap(st, h, sto(e.heapTerm(st, h), r, app("str_runes", x.T)))
		return Val{T: mkSlice(r, "0", n, n), S: sSlice}
	case fs == sSlice && ts == sStr:
		el := from.Underlying().(*types.Slice).Elem()
		h := e.elemHeap(el)
		arr := sel(e.heapTerm(st, h), slRef(x.T))
		if eb, ok := el.Underlying().(*types.Basic); ok && eb.Kind() == types.Uint8 {
			e.declareByteStr()
			return Val{T: app("bytes_str", arr, slOff(x.T), slLen(x.T)), S: sStr}
		}
		// string([]rune): a function of the element heap and the slice; for ASCII
		// runes the bytes of the result are the runes themselves
		_ = arr
		ht := e.heapTerm(st, h)
		hs := arraySort(sInt, arraySort(sInt, sInt))
		e.ctx.declareFun("runes_str", []string{hs, sSlice}, sStr)
		if !e.boxAx["runes_str"] {
			e.boxAx["runes_str"] = true
			el := func(k string) string { return e.elemAt("H", el0(from), "s", k) }
			e.ctx.assumeGlobal(fmt.Sprintf("(forall ((H %s) (s Slice)) (! (=> (forall ((k Int)) (=> (and (<= 0 k) (< k (sl_len s))) (and (< 0 %s) (< %s 128)))) (and (= (slen (runes_str H s)) (sl_len s)) (forall ((j Int)) (! (=> (and (<= 0 j) (< j (sl_len s))) (= (sat (runes_str H s) j) %s)) :pattern ((sat (runes_str H s) j)))))) :pattern ((runes_str H s))))",
				hs, el("k"), el("k"), el("j")))
			e.trust("string([]rune) of ASCII runes has exactly those bytes")
		}
		return Val{T: app("runes_str", ht, x.T), S: sStr}
	case fs == ts:
		return Val{T: x.T, S: ts}
	}
	e.note("%s: conversion %s -> %s not modelled: havoced", e.w.pos(pos), from, to)
	return e.havocVal(st, to, "conv")
}

func rangeWithin(flo, fhi, tlo, thi string) bool {
	ord := map[string]int{"(- 9223372036854775808)": -64, "(- 2147483648)": -32, "(- 32768)": -16, "(- 128)": -8, "0": 0,
		"127": 7, "255": 8, "32767": 15, "65535": 16, "2147483647": 31, "4294967295": 32, "9223372036854775807": 63, "18446744073709551615": 64}
	return ord[tlo] <= ord[flo] && ord[fhi] <= ord[thi]
}

// bit-vector mode is implemented in bv.go

func el0(t types.Type) types.Type { return t.Underlying().(*types.Slice).Elem() }

// declareByteStr declares the string<->[]byte conversion functions with their
// axioms, including that converting a string to bytes and back is the identity.
func (e *Exec) declareByteStr() {
	e.ctx.declareFun("str_bytes", []string{sStr}, arraySort(sInt, sInt))
	if !e.boxAx["str_bytes"] {
		e.boxAx["str_bytes"] = true
		e.ctx.assumeGlobal("(forall ((s Str) (i Int)) (! (= (select (str_bytes s) i) (sat s i)) :pattern ((select (str_bytes s) i))))")
	}
	e.ctx.declareFun("bytes_str", []string{arraySort(sInt, sInt), sInt, sInt}, sStr)
	if !e.boxAx["bytes_str"] {
		e.boxAx["bytes_str"] = true
		e.ctx.assumeGlobal("(forall ((a (Array Int Int)) (o Int) (n Int)) (! (=> (>= n 0) (= (slen (bytes_str a o n)) n)) :pattern ((bytes_str a o n))))")
		e.ctx.assumeGlobal("(forall ((a (Array Int Int)) (o Int) (n Int) (i Int)) (! (=> (and (<= 0 i) (< i n)) (= (sat (bytes_str a o n) i) (select a (+ o i)))) :pattern ((sat (bytes_str a o n) i))))")
	}
	if !e.boxAx["bytes_str_rt"] {
		e.boxAx["bytes_str_rt"] = true
		e.ctx.assumeGlobal("(forall ((s Str)) (! (= (bytes_str (str_bytes s) 0 (slen s)) s) :pattern ((str_bytes s))))")
	}
}
