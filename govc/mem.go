package main

import (
	"fmt"
	"go/token"
	"go/types"

	"golang.org/x/tools/go/ssa"
)

func isStruct(t types.Type) bool {
	_, ok := t.Underlying().(*types.Struct)
	return ok
}
func isArray(t types.Type) bool {
	_, ok := t.Underlying().(*types.Array)
	return ok
}

// alloc returns a fresh object reference.
func (e *Exec) alloc(st *State) string {
	r := e.ctx.fresh("ref", sInt)
	e.ctx.assume(eq(r, st.nextRef))
	n := e.ctx.fresh("nextRef", sInt)
	e.ctx.assume(eq(n, add(st.nextRef, "1")))
	st.nextRef = n
	return r
}

// havocVal returns an unconstrained value of Go type t, with the facts every
// value of that type satisfies.
func (e *Exec) havocVal(st *State, t types.Type, hint string) Val {
	if tup, ok := t.(*types.Tuple); ok {
		v := Val{GoT: t}
		for i := 0; i < tup.Len(); i++ {
			v.Tup = append(v.Tup, e.havocVal(st, tup.At(i).Type(), fmt.Sprintf("%s_%d", hint, i)))
		}
		return v
	}
	s := e.ctx.sortOf(t)
	c := e.ctx.fresh(hint, s)
	e.ctx.assume(imp(st.pc, e.valueFacts(c, t, st.nextRef)))
	return Val{T: c, S: s, GoT: t}
}

// ---------------------------------------------------------------- object load/store

func (e *Exec) loadObj(st *State, ref string, t types.Type) string {
	u := t.Underlying().(*types.Struct)
	si := e.ctx.structSort(t)
	fs := make([]string, u.NumFields())
	for i := range fs {
		ft := u.Field(i).Type()
		if isStruct(ft) {
			fs[i] = e.loadObj(st, app("emb", ref, num(int64(i))), ft)
		} else {
			fs[i] = sel(e.heapTerm(st, e.fieldHeap(t, i)), ref)
		}
	}
	return si.mk(fs)
}

func (e *Exec) storeObj(fr *frame, st *State, ref string, t types.Type, v string, pos token.Pos, init bool) {
	u := t.Underlying().(*types.Struct)
	si := e.ctx.structSort(t)
	for i := 0; i < u.NumFields(); i++ {
		ft := u.Field(i).Type()
		if isStruct(ft) {
			e.storeObj(fr, st, app("emb", ref, num(int64(i))), ft, si.get(v, i), pos, init)
		} else {
			h := e.fieldHeap(t, i)
			if !init {
				e.frameCheck(fr, st, h, ref, pos)
			}
			e.setHeap(st, h, sto(e.heapTerm(st, h), ref, si.get(v, i)))
		}
	}
}

// loadPtr dereferences a pointer value whose pointee has Go type t.
func (e *Exec) loadPtr(fr *frame, st *State, p Val, t types.Type, pos token.Pos) Val {
	if p.Bad != "" {
		e.note("%s: load through unmodelled pointer (%s): value havoced", e.w.pos(pos), p.Bad)
		return e.havocVal(st, t, "ld")
	}
	if p.Addr != nil {
		return e.loadAddr(fr, st, p.Addr, pos)
	}
	if g, ok := e.globalByRef[p.T]; ok && e.constGlobal(g) {
		return e.constGlobalVal(g, t)
	}
	if cl, ok := e.boxClosures[p.T]; ok && cl != nil {
		// a captured local variable holding a function literal (assigned once)
		return Val{Clo: cl, S: sInt, GoT: t}
	}
	e.oblige(fr, st, "nilptr", "nil pointer dereference", pos, not(eq(p.T, "0")))
	s := e.ctx.sortOf(t)
	switch {
	case isStruct(t):
		return Val{T: e.loadObj(st, p.T, t), S: s, GoT: t}
	case isArray(t):
		el := t.Underlying().(*types.Array).Elem()
		return Val{T: sel(e.heapTerm(st, e.elemHeap(el)), p.T), S: s, GoT: t}
	}
	return Val{T: e.derefTerm(st, p.T, t), S: s, GoT: t}
}

// derefTerm: the value of type t (not a struct or array) that pointer p points
// to. Normally p is the address of a boxed variable; in functions that `uses
// ELEMPTR` it may also be a pointer to a slice element (see termOf).
func (e *Exec) derefTerm(st *State, p string, t types.Type) string {
	box := sel(e.heapTerm(st, e.boxHeap(t)), p)
	if !e.uses("ELEMPTR") {
		return box
	}
	isE := and(lt(p, "0"), lt(app("embidx", p), "0"))
	elem := sel(sel(e.heapTerm(st, e.elemHeap(t)), app("embbase", p)), "(- (- 0 1) (embidx "+p+"))")
	return ite(isE, elem, box)
}

func (e *Exec) storePtr(fr *frame, st *State, p Val, t types.Type, v Val, pos token.Pos) {
	if p.Bad != "" {
		e.note("%s: store through unmodelled pointer (%s): all heaps havoced", e.w.pos(pos), p.Bad)
		e.havocAll(st)
		return
	}
	if p.Addr != nil {
		e.storeAddr(fr, st, p.Addr, v, pos)
		return
	}
	if _, isSig := t.Underlying().(*types.Signature); isSig {
		if prev, seen := e.boxClosures[p.T]; seen && prev != nil {
			e.boxClosures[p.T] = nil // assigned more than once: not tracked
		} else if !seen && v.Clo != nil {
			e.boxClosures[p.T] = v.Clo
		} else {
			e.boxClosures[p.T] = nil
		}
	}
	e.oblige(fr, st, "nilptr", "nil pointer dereference", pos, not(eq(p.T, "0")))
	v = e.termOf(st, v, t)
	switch {
	case isStruct(t):
		e.storeObj(fr, st, p.T, t, v.T, pos, false)
	case isArray(t):
		el := t.Underlying().(*types.Array).Elem()
		h := e.elemHeap(el)
		e.frameCheck(fr, st, h, p.T, pos)
		e.setHeap(st, h, sto(e.heapTerm(st, h), p.T, v.T))
	default:
		h := e.boxHeap(t)
		e.frameCheck(fr, st, h, p.T, pos)
		e.setHeap(st, h, sto(e.heapTerm(st, h), p.T, v.T))
	}
}

// termOf makes sure a value is an SMT term (closures and addresses stored in
// memory become opaque integers).
func (e *Exec) termOf(st *State, v Val, t types.Type) Val {
	if v.T != "" && v.Bad == "" {
		return v
	}
	if v.Clo != nil {
		// a closure stored in memory: identified by an opaque id
		c := e.ctx.fresh("clo_"+v.Clo.Fn.Name(), sInt)
		e.ctx.assume(lt("0", c))
		e.closureIDs[c] = v.Clo
		return Val{T: c, S: sInt, GoT: t, Clo: v.Clo}
	}
	if v.Addr != nil && v.Addr.Kind == aElem && e.uses("ELEMPTR") {
		// a pointer to a slice element as a first-class value: emb(array, -1-pos)
		// (negative index distinguishes it from a pointer to an embedded struct);
		// it stays valid when the slice variable is later re-sliced or reallocated
		pos := add(slOff(v.Addr.Sl), v.Addr.Idx)
		return Val{T: app("emb", slRef(v.Addr.Sl), "(- (- 0 1) "+pos+")"), S: sInt, GoT: t}
	}
	if v.Addr != nil {
		e.note("pointer into an element or field is stored in memory or passed to a call: treated as opaque")
	}
	h := e.havocVal(st, t, "opaque")
	return h
}

func (e *Exec) loadAddr(fr *frame, st *State, a *Addr, pos token.Pos) Val {
	t := a.ElemT
	s := e.ctx.sortOf(t)
	switch a.Kind {
	case aCell:
		if v, ok := st.cells[a.Cell]; ok {
			return v
		}
		return e.havocVal(st, t, a.Cell.Comment)
	case aField:
		e.accessCheck(fr, st, a, false, pos)
		fname := typeShortName(a.Owner) + "." + a.Owner.Underlying().(*types.Struct).Field(a.Fld).Name()
		return Val{T: sel(e.heapTerm(st, e.fieldHeap(a.Owner, a.Fld)), a.Ref), S: s, GoT: t, From: fname, FromOwner: a.Ref}
	case aBox:
		return Val{T: sel(e.heapTerm(st, e.boxHeap(t)), a.Ref), S: s, GoT: t}
	case aElem:
		h := e.heapTerm(st, e.elemHeap(t))
		return Val{T: e.elemAt(h, t, a.Sl, a.Idx), S: s, GoT: t}
	case aSub:
		base := e.loadAddr(fr, st, a.Base, pos)
		si := e.ctx.structSort(a.Base.ElemT)
		return Val{T: si.get(base.T, a.Fld), S: s, GoT: t}
	case aArr:
		base := e.loadAddr(fr, st, a.Base, pos)
		return Val{T: sel(base.T, a.Idx), S: s, GoT: t}
	}
	panic("loadAddr")
}

func (e *Exec) storeAddr(fr *frame, st *State, a *Addr, v Val, pos token.Pos) {
	t := a.ElemT
	switch a.Kind {
	case aCell:
		v.GoT = t
		st.cells[a.Cell] = v
		return
	}
	v = e.termOf(st, v, t)
	switch a.Kind {
	case aField:
		vv := v
		vv.GoT = t
		e.curStoreVal = &vv
		e.accessCheck(fr, st, a, true, pos)
		e.curStoreVal = nil
		h := e.fieldHeap(a.Owner, a.Fld)
		e.frameCheck(fr, st, h, a.Ref, pos)
		oldFieldVal := Val{T: sel(e.heapTerm(st, h), a.Ref), S: v.S, GoT: t}
		e.setHeap(st, h, sto(e.heapTerm(st, h), a.Ref, v.T))
		e.ghostOnFieldStore(fr, st, a, oldFieldVal, vv)
	case aBox:
		h := e.boxHeap(t)
		e.frameCheck(fr, st, h, a.Ref, pos)
		e.setHeap(st, h, sto(e.heapTerm(st, h), a.Ref, v.T))
	case aElem:
		h := e.elemHeap(t)
		r := slRef(a.Sl)
		e.frameCheck(fr, st, h, r, pos)
		ht := e.heapTerm(st, h)
		e.setHeap(st, h, sto(ht, r, sto(sel(ht, r), add(slOff(a.Sl), a.Idx), v.T)))
	case aSub:
		base := e.loadAddr(fr, st, a.Base, pos)
		si := e.ctx.structSort(a.Base.ElemT)
		nb := Val{T: si.with(base.T, a.Fld, v.T), S: base.S, GoT: a.Base.ElemT}
		e.storeAddr(fr, st, a.Base, nb, pos)
	case aArr:
		base := e.loadAddr(fr, st, a.Base, pos)
		nb := Val{T: sto(base.T, a.Idx, v.T), S: base.S, GoT: a.Base.ElemT}
		e.storeAddr(fr, st, a.Base, nb, pos)
	}
}

// havocAll forgets every heap (used for unmodelled effects).
func (e *Exec) havocAll(st *State) {
	keep := map[string]string{}
	for _, n := range tlHeaps {
		if t, ok := st.heaps[n]; ok {
			keep[n] = t
		} else if _, known := e.heapInfos[n]; known {
			keep[n] = e.heapTerm(st, n)
		}
	}
	st.epoch = e.newEpoch()
	st.heaps = map[string]string{}
	// which locks and permissions this goroutine holds is not changed by other code
	for n, t := range keep {
		st.heaps[n] = t
	}
	for k := range st.cells {
		if k.Heap {
			delete(st.cells, k)
		}
	}
}

func (e *Exec) newEpoch() int {
	e.epochs++
	return e.epochs
}

// frameCheck emits the frame obligation for a write to (heap, ref).
func (e *Exec) frameCheck(fr *frame, st *State, heap, ref string, pos token.Pos) {
	if e.spec == nil || !e.spec.HasMod || e.modAll {
		return
	}
	goal := e.inFrame(heap, ref)
	e.oblige(fr, st, "frame", "write to "+heap+" stays inside `modifies`", pos, goal)
}

// inFrame: the object was allocated by this call, or the location is listed.
func (e *Exec) inFrame(heap, ref string) string {
	alts := []string{le(e.nextRef0, app("root", ref)), eq(ref, "0")}
	ms := e.modset[heap]
	if heap != "*" {
		ms = append(append([]modLoc{}, ms...), e.modset["*"]...)
	}
	for _, m := range ms {
		if m.all {
			alts = append(alts, m.cond)
		} else if m.pred != nil {
			alts = append(alts, and(m.cond, m.pred(ref)))
		} else {
			alts = append(alts, and(m.cond, eq(ref, m.ref)))
		}
	}
	return or(alts...)
}

var _ = ssa.NaiveForm

// tlHeaps: ghost heaps that describe the current goroutine only (which locks
// it holds, which WaitGroup tokens and channel-close permissions it owns).
// Other goroutines cannot change them; a new goroutine starts with all zero
// except for what its `holds` clauses transfer from the spawner.
var tlHeaps = []string{"G$lock", "G$wgtok", "G$wgst", "G$mayclose", "G$chcredit"}

func isTL(name string) bool {
	for _, n := range tlHeaps {
		if n == name {
			return true
		}
	}
	return false
}

func (e *Exec) tlHeap(st *State, name string) string {
	e.regHeap(name, arraySort(sInt, sInt), nil, 'G', "")
	return e.heapTerm(st, name)
}

// lockHeap: ghost heap mapping a mutex address to the mode in which the
// current goroutine holds it (0 none, 1 read, 2 write).
func (e *Exec) lockHeap(st *State) string {
	e.regHeap("G$lock", arraySort(sInt, sInt), nil, 'G', "")
	return e.heapTerm(st, "G$lock")
}

// constGlobalVal: the (constant) value of a global that only its package
// initialiser assigns.
func (e *Exec) constGlobalVal(g *ssa.Global, t types.Type) Val {
	name := "globval$" + sanitize(g.Pkg.Pkg.Name()+"."+g.Name())
	s := e.ctx.sortOf(t)
	if _, ok := e.ctx.declared[name]; !ok {
		e.ctx.declare(name, s)
		e.ctx.assumeGlobal(e.valueFacts(name, t, e.nextRef0))
		e.trust("global " + g.Pkg.Pkg.Name() + "." + g.Name() + " is assigned only by its package initialiser (checked syntactically): its value is a constant")
	}
	return Val{T: name, S: s, GoT: t}
}

// accessCheck: lock-discipline obligations declared with `access` clauses of
// the function being verified (for reads/writes of a struct field).
func (e *Exec) accessCheck(fr *frame, st *State, a *Addr, write bool, pos token.Pos) {
	if e.spec == nil || len(e.spec.Access) == 0 {
		return
	}
	tname := typeShortName(a.Owner)
	fname := a.Owner.Underlying().(*types.Struct).Field(a.Fld).Name()
	e.accessRulesT(fr, st, tname, fname, a.Ref, types.NewPointer(a.Owner), write, pos)
}

func (e *Exec) accessRules(fr *frame, st *State, tname, fname, owner string, write bool, pos token.Pos) {
	e.accessRulesT(fr, st, tname, fname, owner, nil, write, pos)
}

// accessRulesT: `owner` in the rule's condition is the object whose field is
// accessed (typed when known, so that the condition can mention its fields,
// e.g. "written only while still nil").
func (e *Exec) accessRulesT(fr *frame, st *State, tname, fname, owner string, ownerT types.Type, write bool, pos token.Pos) {
	if e.spec == nil {
		return
	}
	for _, r := range e.spec.Access {
		if r.Type != tname || r.Field != fname || r.Write != write {
			continue
		}
		env := e.specEnv(e.topFrame, st, nil)
		for k, v := range e.topFrame.entryParams {
			if _, isLocal := e.topFrame.locals[k]; !isLocal {
				env.vars[k] = v
			}
		}
		env.vars["owner"] = Val{T: owner, S: sInt, GoT: ownerT}
		if write && e.curStoreVal != nil {
			env.vars["value"] = *e.curStoreVal // the value being stored
		}
		v := env.eval(r.Cond)
		mode := "read"
		if write {
			mode = "write"
		}
		e.oblige(fr, st, "lock:"+tname+"."+fname, mode+" of "+tname+"."+fname+" requires "+r.Src, pos, v.T)
	}
}

// ghostOnFieldStore: `ghostset g = expr onstore field T.f`: ghost assignment
// right after a store to field f of an object of type T in the function under
// verification (`owner`, `value`, `oldvalue` are available in expr).
func (e *Exec) ghostOnFieldStore(fr *frame, st *State, a *Addr, oldV, newV Val) {
	if e.topFrame == nil || e.topFrame.spec == nil || len(e.topFrame.spec.GhostSets) == 0 {
		return
	}
	key := "@field:" + typeShortName(a.Owner) + "." + a.Owner.Underlying().(*types.Struct).Field(a.Fld).Name()
	for _, gs := range e.topFrame.spec.GhostSets {
		if gs.OnStore != key {
			continue
		}
		g, ok := e.ss.GhostVars[gs.Var]
		if !ok {
			e.specErrors = append(e.specErrors, "ghostset: unknown ghost variable "+gs.Var)
			continue
		}
		genv := e.specEnv(e.topFrame, st, nil)
		for k, v := range e.topFrame.entryParams {
			if _, isLocal := e.topFrame.locals[k]; !isLocal {
				genv.vars[k] = v
			}
		}
		genv.vars["owner"] = Val{T: a.Ref, S: sInt, GoT: types.NewPointer(a.Owner)}
		genv.vars["value"] = newV
		genv.vars["oldvalue"] = oldV
		v := genv.eval(gs.E)
		genv.ghostVar(g)
		e.setHeap(st, "G$"+gs.Var, v.T)
	}
}
