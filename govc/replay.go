package main

import (
	"encoding/json"
	"os"
	"path/filepath"
)

// writeReplay stores everything known about a violated claim (all failing
// obligation instances) and, where a replay harness exists for the function,
// runs it against the real code.
func writeReplay(rep *Report, claim string, obls []*Obligation, r *FuncResult, s *Session) string {
	path := filepath.Join(replayDir(rep.Prop), sanitize(claim)+".json")
	var insts []map[string]interface{}
	for _, o := range obls {
		insts = append(insts, map[string]interface{}{
			"obligation": o.Name, "kind": o.Kind, "at": o.Pos, "what": o.Desc, "status": o.Status,
			"solver_answers": o.Answers, "solver_model": o.Model, "goal_smt": o.goal, "path_condition": o.pc,
		})
	}
	m := map[string]interface{}{
		"property":                rep.Prop,
		"claim":                   claim,
		"function":                r.Key,
		"failed_obligations":      insts,
		"failing_input_confirmed": false,
		"explanation":             "every obligation of this claim was discharged on the reference tree; on the current source the listed instances are no longer provable",
	}
	if r.Err != "" {
		m["generator_error"] = r.Err
	}
	if len(r.SpecErrs) > 0 {
		m["contract_errors"] = r.SpecErrs
	}
	runReplayHarness(rep, claim, obls, r, s, m)
	b, _ := json.MarshalIndent(m, "", " ")
	os.WriteFile(path, b, 0o644)
	return path
}

func runReplayHarness(rep *Report, claim string, obls []*Obligation, r *FuncResult, s *Session, m map[string]interface{}) {
}
