package main

import (
	"encoding/json"
	"os"
	"os/exec"
	"path/filepath"
	"strings"
)

// writeReplay stores everything known about a violated claim (all failing
// obligation instances) and, where a replay harness exists for the function,
// runs it against the real code.
func writeReplay(rep *Report, claim string, obls []*Obligation, r *FuncResult, s *Session) string {
	path := filepath.Join(replayDir(rep.Prop), sanitize(claim)+".json")
	var insts []map[string]interface{}
	for _, o := range obls {
		insts = append(insts, map[string]interface{}{
			"obligation": o.Name, "kind": o.Kind, "at": o.Pos, "what": o.Desc, "status": o.Status,
			"solver_answers": o.Answers, "solver_model": o.Model, "goal_smt": o.goal, "path_condition": o.pc,
		})
	}
	m := map[string]interface{}{
		"property":                rep.Prop,
		"claim":                   claim,
		"function":                r.Key,
		"failed_obligations":      insts,
		"failing_input_confirmed": false,
		"explanation":             "every obligation of this claim was discharged on the reference tree; on the current source the listed instances are no longer provable",
	}
	if r.Err != "" {
		m["generator_error"] = r.Err
	}
	if len(r.SpecErrs) > 0 {
		m["contract_errors"] = r.SpecErrs
	}
	runReplayHarness(rep, claim, obls, r, s, m)
	b, _ := json.MarshalIndent(m, "", " ")
	os.WriteFile(path, b, 0o644)
	return path
}

type harnessDef struct {
	Property string `json:"property"`
	PkgDir   string `json:"pkgdir"`
	File     string `json:"file"`
	Test     string `json:"test"`
	Race     bool   `json:"race"`
}

var harnessCache = map[string]map[string]interface{}{}

// runReplayHarness runs the bounded witness-search harnesses registered for
// the property against the real code (go test -overlay, nothing is written
// to the repository) and records whether a concrete failing input was found.
func runReplayHarness(rep *Report, claim string, obls []*Obligation, r *FuncResult, s *Session, m map[string]interface{}) {
	if c, ok := harnessCache[rep.Prop]; ok {
		for k, v := range c {
			m[k] = v
		}
		return
	}
	res := map[string]interface{}{}
	defer func() {
		harnessCache[rep.Prop] = res
		for k, v := range res {
			m[k] = v
		}
	}()
	var defs []harnessDef
	if loadJSON(filepath.Join(verifDir, "replay", "index.json"), &defs) != nil {
		return
	}
	var runs []map[string]interface{}
	confirmed := false
	for _, d := range defs {
		if d.Property != rep.Prop {
			continue
		}
		out, fails := runHarness(d)
		runs = append(runs, map[string]interface{}{"harness": d.File, "test": d.Test, "package": d.PkgDir,
			"kind": "bounded witness search over a fixed input pool (not a proof)", "failing_inputs": fails, "output_tail": tail(out, 4000)})
		if len(fails) > 0 {
			confirmed = true
		}
	}
	res["replay_runs"] = runs
	res["failing_input_confirmed"] = confirmed
}

func tail(s string, n int) string {
	if len(s) > n {
		return s[len(s)-n:]
	}
	return s
}

// runHarness executes one harness; returns the output and the REPLAY-FAIL lines.
func runHarness(d harnessDef) (string, []string) {
	pkg := filepath.Join(repoDir, d.PkgDir)
	mod := pkg
	for {
		if _, err := os.Stat(filepath.Join(mod, "go.mod")); err == nil {
			break
		}
		if mod == "/" || mod == repoDir {
			mod = repoDir
			break
		}
		mod = filepath.Dir(mod)
	}
	tmp, err := os.MkdirTemp("", "govc-replay-")
	if err != nil {
		return err.Error(), nil
	}
	defer os.RemoveAll(tmp)
	for _, f := range []string{"go.mod", "go.sum"} {
		b, _ := os.ReadFile(filepath.Join(mod, f))
		os.WriteFile(filepath.Join(tmp, f), b, 0o644)
	}
	ov := map[string]map[string]string{"Replace": {filepath.Join(pkg, "zz_verif_replay_test.go"): filepath.Join(verifDir, d.File)}}
	b, _ := json.Marshal(ov)
	ovf := filepath.Join(tmp, "overlay.json")
	os.WriteFile(ovf, b, 0o644)
	args := []string{"test", "-overlay", ovf, "-modfile", filepath.Join(tmp, "go.mod"), "-vet=off", "-count=1", "-timeout", "300s", "-run", "^" + d.Test + "$"}
	if d.Race {
		args = append(args, "-race")
	}
	args = append(args, ".")
	cmd := exec.Command("go", args...)
	cmd.Dir = pkg
	cmd.Env = append(os.Environ(), "GOFLAGS=-mod=mod", "GOPROXY=off", "GOSUMDB=off", "GOTOOLCHAIN=local")
	outb, _ := cmd.CombinedOutput()
	out := string(outb)
	var fails []string
	for _, ln := range strings.Split(out, "\n") {
		if strings.HasPrefix(ln, "REPLAY-FAIL") || strings.HasPrefix(ln, "WARNING: DATA RACE") || strings.HasPrefix(ln, "panic:") || strings.HasPrefix(ln, "fatal error:") {
			if len(fails) < 20 {
				fails = append(fails, ln)
			}
		}
	}
	return out, fails
}
