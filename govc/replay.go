package main

import (
	"encoding/json"
	"os"
	"path/filepath"
)

// writeReplay stores everything known about a failed obligation and, where a
// replay harness exists for the function, runs it against the real code.
func writeReplay(rep *Report, o *Obligation, r *FuncResult, s *Session) string {
	path := filepath.Join(replayDir(rep.Prop), sanitize(o.Name)+".json")
	m := map[string]interface{}{
		"property":   rep.Prop,
		"obligation": o.Name,
		"kind":       o.Kind,
		"function":   o.Func,
		"at":         o.Pos,
		"what":       o.Desc,
		"solver_answers": o.Answers,
		"solver_model":   o.Model,
		"goal_smt":       o.goal,
		"path_condition": o.pc,
		"failing_input_confirmed": false,
	}
	if r.Err != "" {
		m["generator_error"] = r.Err
	}
	if len(r.SpecErrs) > 0 {
		m["contract_errors"] = r.SpecErrs
	}
	runReplayHarness(rep, o, r, s, m)
	b, _ := json.MarshalIndent(m, "", " ")
	os.WriteFile(path, b, 0o644)
	return path
}

func runReplayHarness(rep *Report, o *Obligation, r *FuncResult, s *Session, m map[string]interface{}) {
}
