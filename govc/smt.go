package main

import (
	"fmt"
	"math/big"
	"go/constant"
	"go/types"
	"math"
	"sort"
	"strconv"
	"strings"
)

// Sorts are SMT-LIB sort expressions as strings.
const (
	sInt   = "Int"
	sBool  = "Bool"
	sStr   = "Str"
	sF     = "F"
	sSlice = "Slice"
	sIface = "Iface"
)

// Ctx accumulates the declarations, hypotheses and obligations generated for
// one function under contract.
type Ctx struct {
	decls    []string          // declare-* commands in order
	declared map[string]string // symbol -> sort/signature
	dtypes   map[string]bool
	hyps     []string // assertions (hypotheses), in generation order
	htag     []int    // state id under which each hypothesis was generated (0 = global)
	hgroup   []string // clause group of each hypothesis ("" = visible to every obligation)
	group    string   // group of the clause currently being assumed or checked
	tag      int      // current state id
	parents  map[int][]int
	n        int
	obls     []*Obligation
	strlits  map[string]string
	flits    map[string]float64
	bv       bool
	mentions map[string]bool
	lemmasUsed map[string]bool
}

type Obligation struct {
	Name    string
	Kind    string
	Func    string
	Pos     string
	Desc    string
	Props   []string
	nhyps   int
	pc      string
	goal    string
	ctx     *Ctx
	state   int  // id of the symbolic state the obligation was generated in
	Soft    bool // overflow etc.: never a violation
	Restricted bool // Props comes from a clause-level restriction
	Group   string // clause group ([#g] label): sees the hypotheses of that group
	Vacuity bool // expected to be SAT (reachability cover)
	// results
	Status  string // discharged | failed | unknown
	Backend string
	Time    float64
	Answers map[string]string
	Model   string
}

func newCtx() *Ctx {
	return &Ctx{parents: map[int][]int{}, declared: map[string]string{}, dtypes: map[string]bool{}, strlits: map[string]string{},
		flits: map[string]float64{}, mentions: map[string]bool{}, lemmasUsed: map[string]bool{}}
}

func (c *Ctx) fresh(prefix, sort string) string {
	c.n++
	name := fmt.Sprintf("%s!%d", sanitize(prefix), c.n)
	c.declare(name, sort)
	return name
}

func (c *Ctx) declare(name, sort string) {
	if _, ok := c.declared[name]; ok {
		return
	}
	c.declared[name] = sort
	c.decls = append(c.decls, fmt.Sprintf("(declare-const %s %s)", name, sort))
}

func (c *Ctx) declareFun(name string, args []string, ret string) {
	if _, ok := c.declared[name]; ok {
		return
	}
	c.declared[name] = "(" + strings.Join(args, " ") + ") " + ret
	c.decls = append(c.decls, fmt.Sprintf("(declare-fun %s (%s) %s)", name, strings.Join(args, " "), ret))
}

func (c *Ctx) assume(t string) {
	if t == "true" {
		return
	}
	c.hyps = append(c.hyps, t)
	c.htag = append(c.htag, c.tag)
	c.hgroup = append(c.hgroup, c.group)
}

// assumeGlobal records a fact that is independent of the program point
// (definitional axioms of lazily declared functions and constants).
func (c *Ctx) assumeGlobal(t string) {
	if t == "true" {
		return
	}
	c.hyps = append(c.hyps, t)
	c.htag = append(c.htag, 0)
	c.hgroup = append(c.hgroup, "")
}

// ancestors returns the set of state ids from which state id is reachable
// (including itself and the global tag 0).
func (c *Ctx) ancestors(id int) map[int]bool {
	seen := map[int]bool{0: true}
	stack := []int{id}
	for len(stack) > 0 {
		x := stack[len(stack)-1]
		stack = stack[:len(stack)-1]
		if seen[x] {
			continue
		}
		seen[x] = true
		stack = append(stack, c.parents[x]...)
	}
	return seen
}

func sanitize(s string) string {
	var b strings.Builder
	for _, r := range s {
		if (r >= 'a' && r <= 'z') || (r >= 'A' && r <= 'Z') || (r >= '0' && r <= '9') || r == '_' || r == '$' || r == '.' {
			b.WriteRune(r)
		} else {
			b.WriteByte('_')
		}
	}
	if b.Len() == 0 {
		return "v"
	}
	return b.String()
}

// ---------------------------------------------------------------- term helpers

func and(ts ...string) string {
	var xs []string
	for _, t := range ts {
		if t == "true" || t == "" {
			continue
		}
		if t == "false" {
			return "false"
		}
		xs = append(xs, t)
	}
	switch len(xs) {
	case 0:
		return "true"
	case 1:
		return xs[0]
	}
	return "(and " + strings.Join(xs, " ") + ")"
}

func or(ts ...string) string {
	var xs []string
	for _, t := range ts {
		if t == "false" || t == "" {
			continue
		}
		if t == "true" {
			return "true"
		}
		xs = append(xs, t)
	}
	switch len(xs) {
	case 0:
		return "false"
	case 1:
		return xs[0]
	}
	return "(or " + strings.Join(xs, " ") + ")"
}

func not(t string) string {
	switch t {
	case "true":
		return "false"
	case "false":
		return "true"
	}
	if strings.HasPrefix(t, "(not ") && balanced(t[5:len(t)-1]) {
		return t[5 : len(t)-1]
	}
	return "(not " + t + ")"
}

func balanced(s string) bool {
	d := 0
	for _, c := range s {
		if c == '(' {
			d++
		} else if c == ')' {
			d--
			if d < 0 {
				return false
			}
		}
	}
	return d == 0
}

func imp(a, b string) string {
	if a == "true" {
		return b
	}
	if b == "true" || a == "false" {
		return "true"
	}
	return "(=> " + a + " " + b + ")"
}

func eq(a, b string) string {
	if a == b {
		return "true"
	}
	return "(= " + a + " " + b + ")"
}
func ite(c, a, b string) string {
	if c == "true" {
		return a
	}
	if c == "false" {
		return b
	}
	if a == b {
		return a
	}
	return "(ite " + c + " " + a + " " + b + ")"
}
func app(f string, args ...string) string { return "(" + f + " " + strings.Join(args, " ") + ")" }
func sel(a, i string) string                { return "(select " + a + " " + i + ")" }
func sto(a, i, v string) string             { return "(store " + a + " " + i + " " + v + ")" }
func num(n int64) string {
	if n < 0 {
		return "(- " + strconv.FormatInt(-n, 10) + ")"
	}
	return strconv.FormatInt(n, 10)
}
func numStr(s string) string {
	if strings.HasPrefix(s, "-") {
		return "(- " + s[1:] + ")"
	}
	return s
}
func add(a, b string) string {
	if b == "0" {
		return a
	}
	if a == "0" {
		return b
	}
	return "(+ " + a + " " + b + ")"
}
func sub(a, b string) string {
	if b == "0" {
		return a
	}
	return "(- " + a + " " + b + ")"
}
func le(a, b string) string { return "(<= " + a + " " + b + ")" }
func lt(a, b string) string { return "(< " + a + " " + b + ")" }

// slice accessors
func slRef(s string) string { return "(sl_ref " + s + ")" }
func slOff(s string) string { return "(sl_off " + s + ")" }
func slLen(s string) string { return "(sl_len " + s + ")" }
func slCap(s string) string { return "(sl_cap " + s + ")" }
func mkSlice(r, o, l, c string) string {
	return "(mk_slice " + r + " " + o + " " + l + " " + c + ")"
}

const nilSlice = "(mk_slice 0 0 0 0)"

func arraySort(i, v string) string { return "(Array " + i + " " + v + ")" }

// ---------------------------------------------------------------- sorts of Go types

type structInfo struct {
	name   string // SMT datatype name
	st     *types.Struct
	fields []string // selector names
	fsorts []string
	gotype types.Type
}

var structCache = map[string]*structInfo{}

func mangleType(t types.Type) string {
	s := types.TypeString(t, func(p *types.Package) string { return p.Name() })
	return sanitize(s)
}

// sortOf maps a Go type to an SMT sort, declaring datatypes on demand.
func (c *Ctx) sortOf(t types.Type) string {
	switch u := t.Underlying().(type) {
	case *types.Basic:
		switch {
		case u.Info()&types.IsBoolean != 0:
			return sBool
		case u.Info()&types.IsInteger != 0:
			if c.bv {
				w, _ := bvWidth(t)
				return bvSort(w)
			}
			return sInt
		case u.Info()&types.IsFloat != 0:
			return sF
		case u.Info()&types.IsString != 0:
			return sStr
		case u.Kind() == types.UnsafePointer:
			return sInt
		case u.Kind() == types.UntypedNil:
			return sInt
		}
		return sInt
	case *types.Pointer, *types.Map, *types.Chan, *types.Signature:
		return sInt
	case *types.Slice:
		return sSlice
	case *types.Interface:
		return sIface
	case *types.Struct:
		return c.structSort(t).name
	case *types.Array:
		return arraySort(sInt, c.sortOf(u.Elem()))
	case *types.Tuple:
		return "TUPLE"
	}
	return sInt
}

func (c *Ctx) structSort(t types.Type) *structInfo {
	st := t.Underlying().(*types.Struct)
	key := mangleType(t)
	if _, isNamed := t.(*types.Named); !isNamed {
		key = "anon_" + sanitize(st.String())
		if len(key) > 60 {
			key = fmt.Sprintf("anon_%x", hashString(st.String()))
		}
	}
	si, ok := structCache[key]
	if !ok {
		si = &structInfo{name: "S_" + key, st: st, gotype: t}
		structCache[key] = si
		for i := 0; i < st.NumFields(); i++ {
			si.fields = append(si.fields, fmt.Sprintf("f_%s_%d_%s", key, i, sanitize(st.Field(i).Name())))
		}
	}
	if !c.dtypes[si.name] {
		c.dtypes[si.name] = true
		si.fsorts = nil
		for i := 0; i < st.NumFields(); i++ {
			si.fsorts = append(si.fsorts, c.sortOf(st.Field(i).Type()))
		}
		var fs []string
		for i := range si.fields {
			fs = append(fs, fmt.Sprintf("(%s %s)", si.fields[i], si.fsorts[i]))
		}
		if len(fs) == 0 {
			c.decls = append(c.decls, fmt.Sprintf("(declare-datatypes ((%s 0)) (((mk_%s))))", si.name, si.name))
		} else {
			c.decls = append(c.decls, fmt.Sprintf("(declare-datatypes ((%s 0)) (((mk_%s %s))))", si.name, si.name, strings.Join(fs, " ")))
		}
	}
	return si
}

func hashString(s string) uint32 {
	var h uint32 = 2166136261
	for i := 0; i < len(s); i++ {
		h ^= uint32(s[i])
		h *= 16777619
	}
	return h
}

func (si *structInfo) mk(fields []string) string {
	if len(fields) == 0 {
		return "mk_" + si.name
	}
	return "(mk_" + si.name + " " + strings.Join(fields, " ") + ")"
}

func (si *structInfo) get(v string, i int) string {
	return "(" + si.fields[i] + " " + v + ")"
}

func (si *structInfo) with(v string, i int, nv string) string {
	fs := make([]string, len(si.fields))
	for k := range si.fields {
		if k == i {
			fs[k] = nv
		} else {
			fs[k] = si.get(v, k)
		}
	}
	return si.mk(fs)
}

// zero value of a Go type as a term.
func (c *Ctx) zero(t types.Type) string {
	switch u := t.Underlying().(type) {
	case *types.Basic:
		switch {
		case u.Info()&types.IsBoolean != 0:
			return "false"
		case u.Info()&types.IsFloat != 0:
			return c.floatLit(0)
		case u.Info()&types.IsString != 0:
			return c.strLit("")
		}
		if c.bv && u.Info()&types.IsInteger != 0 {
			w, _ := bvWidth(t)
			return bvLit(big.NewInt(0), w)
		}
		return "0"
	case *types.Slice:
		return nilSlice
	case *types.Interface:
		return "(mk_iface 0 0)"
	case *types.Struct:
		si := c.structSort(t)
		fs := make([]string, u.NumFields())
		for i := range fs {
			fs[i] = c.zero(u.Field(i).Type())
		}
		return si.mk(fs)
	case *types.Array:
		es := c.sortOf(u.Elem())
		z := c.zero(u.Elem())
		if es == sInt || es == sBool {
			return fmt.Sprintf("((as const %s) %s)", arraySort(sInt, es), z)
		}
		// cvc5 accepts only value constants in constant arrays
		name := "zeroarr$" + sanitize(es)
		if _, ok := c.declared[name]; !ok {
			c.declare(name, arraySort(sInt, es))
			c.assumeGlobal(fmt.Sprintf("(forall ((i Int)) (! (= (select %s i) %s) :pattern ((select %s i))))", name, z, name))
		}
		return name
	}
	return "0"
}

// ---------------------------------------------------------------- literals

func (c *Ctx) strLit(s string) string {
	if n, ok := c.strlits[s]; ok {
		return n
	}
	n := fmt.Sprintf("strlit!%d", len(c.strlits))
	c.strlits[s] = n
	c.declare(n, sStr)
	c.assumeGlobal(eq(app("slen", n), num(int64(len(s)))))
	if len(s) <= 16 {
		for i := 0; i < len(s); i++ {
			c.assumeGlobal(eq(app("sat", n, num(int64(i))), num(int64(s[i]))))
		}
	}
	return n
}

func (c *Ctx) floatLit(f float64) string {
	if c.bv {
		return fmt.Sprintf("((_ to_fp 11 53) #x%016x)", math.Float64bits(f))
	}
	key := fmt.Sprintf("flit!%016x", math.Float64bits(f))
	if _, ok := c.flits[key]; !ok {
		c.flits[key] = f
		c.declare(key, sF)
		c.assumeGlobal(app("f_fin", key))
	}
	return key
}

// litFacts asserts distinctness/order of the literal constants used; called
// when a query is rendered.
func (c *Ctx) litFacts() []string {
	var out []string
	if len(c.strlits) > 1 {
		keys := make([]string, 0, len(c.strlits))
		for k := range c.strlits {
			keys = append(keys, k)
		}
		sort.Strings(keys)
		names := []string{}
		for _, k := range keys {
			names = append(names, c.strlits[k])
		}
		out = append(out, "(distinct "+strings.Join(names, " ")+")")
	}
	if len(c.flits) > 0 {
		type fl struct {
			n string
			v float64
		}
		var fs []fl
		for n, v := range c.flits {
			fs = append(fs, fl{n, v})
		}
		sort.Slice(fs, func(i, j int) bool { return fs[i].v < fs[j].v || (fs[i].v == fs[j].v && fs[i].n < fs[j].n) })
		for i := 0; i+1 < len(fs); i++ {
			if fs[i].v < fs[i+1].v {
				out = append(out, app("f_lt", fs[i].n, fs[i+1].n))
			}
		}
		for _, f := range fs {
			if f.v == math.Trunc(f.v) && math.Abs(f.v) < 1e15 {
				out = append(out, eq(f.n, app("i2f", num(int64(f.v)))))
			}
		}
	}
	return out
}

func (c *Ctx) constTerm(v constant.Value, t types.Type) string {
	if v == nil {
		return c.zero(t)
	}
	switch u := t.Underlying().(type) {
	case *types.Basic:
		switch {
		case u.Info()&types.IsBoolean != 0:
			if constant.BoolVal(v) {
				return "true"
			}
			return "false"
		case u.Info()&types.IsInteger != 0:
			iv := constant.ToInt(v)
			if c.bv {
				w, _ := bvWidth(t)
				bi, _ := new(big.Int).SetString(iv.ExactString(), 10)
				return bvLit(bi, w)
			}
			return numStr(iv.ExactString())
		case u.Info()&types.IsFloat != 0:
			f, _ := constant.Float64Val(constant.ToFloat(v))
			return c.floatLit(f)
		case u.Info()&types.IsString != 0:
			return c.strLit(constant.StringVal(v))
		}
	}
	return "0"
}

// ---------------------------------------------------------------- prelude

const preludeInt = `
(declare-sort Str 0)
(declare-sort F 0)
(declare-datatypes ((Slice 0)) (((mk_slice (sl_ref Int) (sl_off Int) (sl_len Int) (sl_cap Int)))))
(declare-datatypes ((Iface 0)) (((mk_iface (if_tag Int) (if_val Int)))))
(declare-fun slen (Str) Int)
(declare-fun sat (Str Int) Int)
(declare-fun scat (Str Str) Str)
(declare-fun ssub (Str Int Int) Str)
(declare-fun s_lt (Str Str) Bool)
(declare-fun emb (Int Int) Int)
(declare-fun embbase (Int) Int)
(declare-fun embidx (Int) Int)
(define-fun root ((p Int)) Int (ite (< p 0) (embbase p) p))
(declare-fun f_lt (F F) Bool)
(declare-fun f_le (F F) Bool)
(declare-fun f_eq (F F) Bool)
(declare-fun f_fin (F) Bool)
(declare-fun f_add (F F) F)
(declare-fun f_sub (F F) F)
(declare-fun f_mul (F F) F)
(declare-fun f_div (F F) F)
(declare-fun f_neg (F) F)
(declare-fun i2f (Int) F)
(declare-fun f2i (F) Int)
(declare-fun box_Str (Str) Int)
(declare-fun unbox_Str (Int) Str)
(declare-fun box_F (F) Int)
(declare-fun unbox_F (Int) F)
(declare-fun box_Slice (Slice) Int)
(declare-fun unbox_Slice (Int) Slice)
(declare-fun box_Bool (Bool) Int)
(declare-fun unbox_Bool (Int) Bool)
`

// axioms of the prelude; each is (name, text). Included in every query.
var preludeAxioms = [][2]string{
	{"slen-nonneg", "(forall ((s Str)) (! (and (>= (slen s) 0) (< (slen s) 281474976710656)) :pattern ((slen s))))"},
	{"scat-len", "(forall ((a Str) (b Str)) (! (= (slen (scat a b)) (+ (slen a) (slen b))) :pattern ((scat a b))))"},
	{"scat-at", "(forall ((a Str) (b Str) (i Int)) (! (= (sat (scat a b) i) (ite (< i (slen a)) (sat a i) (sat b (- i (slen a))))) :pattern ((sat (scat a b) i))))"},
	{"ssub-len", "(forall ((s Str) (i Int) (j Int)) (! (=> (and (<= 0 i) (<= i j) (<= j (slen s))) (= (slen (ssub s i j)) (- j i))) :pattern ((ssub s i j))))"},
	{"ssub-at", "(forall ((s Str) (i Int) (j Int) (k Int)) (! (=> (and (<= 0 i) (<= i j) (<= j (slen s)) (<= 0 k) (< k (- j i))) (= (sat (ssub s i j) k) (sat s (+ i k)))) :pattern ((sat (ssub s i j) k))))"},
	{"ssub-full", "(forall ((s Str)) (! (= (ssub s 0 (slen s)) s) :pattern ((ssub s 0 (slen s)))))"},
	{"ssub-empty", "(forall ((s Str) (i Int)) (! (=> (and (<= 0 i) (<= i (slen s))) (= (slen (ssub s i i)) 0)) :pattern ((ssub s i i))))"},
	{"slen-zero", "(forall ((a Str) (b Str)) (! (=> (and (= (slen a) 0) (= (slen b) 0)) (= a b)) :pattern ((slen a) (slen b))))"},
	{"scat-empty-l", "(forall ((a Str) (b Str)) (! (=> (= (slen a) 0) (= (scat a b) b)) :pattern ((scat a b))))"},
	{"scat-empty-r", "(forall ((a Str) (b Str)) (! (=> (= (slen b) 0) (= (scat a b) a)) :pattern ((scat a b))))"},
	{"ssub-ssub", "(forall ((s Str) (a Int) (b Int) (c Int) (d Int)) (! (=> (and (<= 0 a) (<= a b) (<= b (slen s)) (<= 0 c) (<= c d) (<= d (- b a))) (= (ssub (ssub s a b) c d) (ssub s (+ a c) (+ a d)))) :pattern ((ssub (ssub s a b) c d))))"},
	{"ssub-cat", "(forall ((s Str) (a Int) (b Int) (c Int)) (! (=> (and (<= 0 a) (<= a b) (<= b c) (<= c (slen s))) (= (scat (ssub s a b) (ssub s b c)) (ssub s a c))) :pattern ((scat (ssub s a b) (ssub s b c)))))"},
	{"sat-byte", "(forall ((s Str) (i Int)) (! (and (<= 0 (sat s i)) (< (sat s i) 256)) :pattern ((sat s i))))"},
	{"s-lt-irrefl", "(forall ((a Str)) (! (not (s_lt a a)) :pattern ((s_lt a a))))"},
	{"s-lt-trans", "(forall ((a Str) (b Str) (c Str)) (! (=> (and (s_lt a b) (s_lt b c)) (s_lt a c)) :pattern ((s_lt a b) (s_lt b c))))"},
	{"s-lt-total", "(forall ((a Str) (b Str)) (! (or (s_lt a b) (= a b) (s_lt b a)) :pattern ((s_lt a b))))"},
	{"emb-inj", "(forall ((r Int) (k Int)) (! (and (< (emb r k) 0) (= (embbase (emb r k)) r) (= (embidx (emb r k)) k)) :pattern ((emb r k))))"},
	{"box-str", "(forall ((s Str)) (! (= (unbox_Str (box_Str s)) s) :pattern ((box_Str s))))"},
	{"box-f", "(forall ((s F)) (! (= (unbox_F (box_F s)) s) :pattern ((box_F s))))"},
	{"box-slice", "(forall ((s Slice)) (! (= (unbox_Slice (box_Slice s)) s) :pattern ((box_Slice s))))"},
	{"box-bool", "(forall ((s Bool)) (! (= (unbox_Bool (box_Bool s)) s) :pattern ((box_Bool s))))"},
	{"f-lt-le", "(forall ((a F) (b F)) (! (=> (f_lt a b) (and (f_le a b) (not (f_le b a)) (not (f_eq a b)))) :pattern ((f_lt a b))))"},
	{"f-le-split", "(forall ((a F) (b F)) (! (= (f_le a b) (or (f_lt a b) (f_eq a b))) :pattern ((f_le a b))))"},
	{"f-eq-sym", "(forall ((a F) (b F)) (! (= (f_eq a b) (f_eq b a)) :pattern ((f_eq a b))))"},
	{"f-eq-le", "(forall ((a F) (b F)) (! (=> (f_eq a b) (and (f_le a b) (f_le b a))) :pattern ((f_eq a b))))"},
	{"f-le-trans", "(forall ((a F) (b F) (c F)) (! (=> (and (f_le a b) (f_le b c)) (f_le a c)) :pattern ((f_le a b) (f_le b c))))"},
	{"f-lt-le-trans", "(forall ((a F) (b F) (c F)) (! (=> (and (f_lt a b) (f_le b c)) (f_lt a c)) :pattern ((f_lt a b) (f_le b c))))"},
	{"f-le-lt-trans", "(forall ((a F) (b F) (c F)) (! (=> (and (f_le a b) (f_lt b c)) (f_lt a c)) :pattern ((f_le a b) (f_lt b c))))"},
	{"f-le-nonnan", "(forall ((a F) (b F)) (! (=> (f_le a b) (and (f_eq a a) (f_eq b b))) :pattern ((f_le a b))))"},
	{"f-total-nonnan", "(forall ((a F) (b F)) (! (=> (and (f_eq a a) (f_eq b b) (not (f_lt a b))) (f_le b a)) :pattern ((f_lt a b))))"},
	{"f-fin-refl", "(forall ((a F)) (! (=> (f_fin a) (f_eq a a)) :pattern ((f_fin a))))"},
	{"f-total-fin", "(forall ((a F) (b F)) (! (=> (and (f_fin a) (f_fin b)) (or (f_lt a b) (f_eq a b) (f_lt b a))) :pattern ((f_fin a) (f_fin b))))"},
	{"i2f-fin", "(forall ((i Int)) (! (f_fin (i2f i)) :pattern ((i2f i))))"},
	{"i2f-mono", "(forall ((i Int) (j Int)) (! (=> (<= i j) (f_le (i2f i) (i2f j))) :pattern ((i2f i) (i2f j))))"},
}

// render produces the SMT-LIB text of one obligation.
func (o *Obligation) render() string {
	c := o.ctx
	var b strings.Builder
	b.WriteString("(set-option :produce-models true)\n(set-logic ALL)\n")
	if c.bv {
		b.WriteString(preludeBV)
	} else {
		b.WriteString(preludeInt)
		for _, ax := range preludeAxioms {
			b.WriteString("(assert " + ax[1] + ")\n")
		}
	}
	for _, d := range c.decls {
		b.WriteString(d + "\n")
	}
	if !c.bv {
		for _, f := range c.litFacts() {
			b.WriteString("(assert " + f + ")\n")
		}
	}
	// only hypotheses generated on a path leading to the obligation's state
	// (or global ones) are relevant; the others are guarded by path
	// conditions of other branches
	anc := c.ancestors(o.state)
	for i, h := range c.hyps[:o.nhyps] {
		if g := c.hgroup[i]; g != "" && o.Group != "" && g != o.Group {
			// the obligations of a grouped clause ([#g]) are not given the
			// hypotheses of other groups (dropping hypotheses is sound); it keeps
			// apart facts that would otherwise feed each other's quantifier
			// instantiation for ever (e.g. the two directions of "is a permutation")
			continue
		}
		if anc[c.htag[i]] {
			b.WriteString("(assert " + h + ")\n")
		}
	}
	b.WriteString("(assert " + o.pc + ")\n")
	if o.Vacuity {
		b.WriteString("(check-sat)\n")
		return b.String()
	}
	_ = 0
	b.WriteString("(assert (not " + o.goal + "))\n")
	b.WriteString("(check-sat)\n(get-model)\n")
	return b.String()
}

const preludeBV = `
(define-sort F () (_ FloatingPoint 11 53))
(declare-sort Str 0)
(declare-fun slen (Str) Int)
(declare-fun sat (Str Int) Int)
(declare-datatypes ((Slice 0)) (((mk_slice (sl_ref Int) (sl_off Int) (sl_len Int) (sl_cap Int)))))
(declare-datatypes ((Iface 0)) (((mk_iface (if_tag Int) (if_val Int)))))
(declare-fun s_lt (Str Str) Bool)
(assert (forall ((a Str)) (! (not (s_lt a a)) :pattern ((s_lt a a)))))
(assert (forall ((a Str) (b Str) (c Str)) (! (=> (and (s_lt a b) (s_lt b c)) (s_lt a c)) :pattern ((s_lt a b) (s_lt b c)))))
(assert (forall ((a Str) (b Str)) (! (or (s_lt a b) (= a b) (s_lt b a)) :pattern ((s_lt a b)))))
`
