package main

import (
	"regexp"
	"go/token"
	"fmt"
	"math/big"
	"go/constant"
	"go/types"
	"strconv"
	"strings"

	"golang.org/x/tools/go/ssa"
)

// SpecEnv evaluates contract expressions over a symbolic state.
type SpecEnv struct {
	ex       *Exec
	st       *State
	old      *State
	vars     map[string]Val
	fn       *ssa.Function // function whose scope names are resolved in
	fr       *frame        // frame for local variables (loop invariants)
	callerFr *frame
	spec     *FuncSpec
	nextRef0 string
	typeOnly bool
	errs     []string
	hdr      *ssa.BasicBlock
	depth    int
	ownFrame bool // evaluating the verified function's own `modifies`
	addrs    map[string]Val // addresses of the callee's captured variables (closure call sites)
	pkgOverride string // package in whose scope type names of the current clause are resolved
}

func (env *SpecEnv) fail(format string, args ...interface{}) Val {
	msg := fmt.Sprintf(format, args...)
	env.errs = append(env.errs, msg)
	env.ex.specErrors = append(env.ex.specErrors, msg)
	return Val{T: "false", S: sBool, Bad: msg}
}

func (env *SpecEnv) child() *SpecEnv {
	n := *env
	n.vars = make(map[string]Val, len(env.vars)+2)
	for k, v := range env.vars {
		n.vars[k] = v
	}
	return &n
}

func (env *SpecEnv) inOld() *SpecEnv {
	n := *env
	n.st = env.old
	return &n
}

// specEnv builds the environment for loop invariants / ensures of frame fr.
func (e *Exec) specEnv(fr *frame, st *State, hdr *ssa.BasicBlock) *SpecEnv {
	env := &SpecEnv{ex: e, st: st, old: e.entry, vars: map[string]Val{}, fn: fr.fn, fr: fr, spec: fr.spec, nextRef0: e.nextRef0, hdr: hdr}
	if fr.entrySt != nil {
		env.old = fr.entrySt
		env.nextRef0 = fr.entrySt.nextRef
	}
	return env
}

func (env *SpecEnv) bindParamsTypesOnly(fn *ssa.Function) {
	if fn == nil {
		return
	}
	for _, p := range fn.Params {
		env.vars[p.Name()] = Val{T: "p$" + p.Name(), S: env.ex.ctx.sortOf(p.Type()), GoT: p.Type()}
	}
}

func (env *SpecEnv) pkg() *types.Package {
	if env.pkgOverride != "" {
		if sp, ok := env.ex.w.SPkgs[env.pkgOverride]; ok {
			return sp.Pkg
		}
	}
	if env.spec != nil && env.spec.FilePkg != "" {
		if sp, ok := env.ex.w.SPkgs[env.spec.FilePkg]; ok {
			return sp.Pkg
		}
	}
	if env.fn != nil {
		if env.fn.Pkg != nil {
			return env.fn.Pkg.Pkg
		}
		if env.fn.Parent() != nil && env.fn.Parent().Pkg != nil {
			return env.fn.Parent().Pkg.Pkg
		}
	}
	if env.spec != nil && env.spec.Pkg != "" {
		if sp, ok := env.ex.w.SPkgs[env.spec.Pkg]; ok {
			return sp.Pkg
		}
	}
	return nil
}

// resolveType parses a type written in a contract: int, string, bool, ref,
// *T, []T, T, pkg.T, map[K]V.
func (env *SpecEnv) resolveType(s string) types.Type {
	s = strings.TrimSpace(s)
	switch s {
	case "int", "ref":
		return types.Typ[types.Int]
	case "string":
		return types.Typ[types.String]
	case "bool":
		return types.Typ[types.Bool]
	case "float64":
		return types.Typ[types.Float64]
	case "byte":
		return types.Typ[types.Uint8]
	case "rune":
		return types.Typ[types.Int32]
	case "uint32":
		return types.Typ[types.Uint32]
	case "any":
		return types.NewInterfaceType(nil, nil)
	case "func":
		return types.NewSignatureType(nil, nil, nil, nil, nil, false)
	}
	if strings.HasPrefix(s, "*") {
		if t := env.resolveType(s[1:]); t != nil {
			return types.NewPointer(t)
		}
		return nil
	}
	if strings.HasPrefix(s, "[]") {
		if t := env.resolveType(s[2:]); t != nil {
			return types.NewSlice(t)
		}
		return nil
	}
	if strings.HasPrefix(s, "map[") {
		k := matchBracket(s, 3)
		if k > 0 {
			kt, vt := env.resolveType(s[4:k]), env.resolveType(s[k+1:])
			if kt != nil && vt != nil {
				return types.NewMap(kt, vt)
			}
		}
		return nil
	}
	pkg := env.pkg()
	if i := strings.LastIndex(s, "."); i >= 0 {
		pname, tname := s[:i], s[i+1:]
		for path, sp := range env.ex.w.SPkgs {
			if path == pname || sp.Pkg.Name() == pname {
				if o := sp.Pkg.Scope().Lookup(tname); o != nil {
					return o.Type()
				}
			}
		}
		return nil
	}
	if pkg != nil {
		if o := pkg.Scope().Lookup(s); o != nil {
			if _, ok := o.(*types.TypeName); ok {
				return o.Type()
			}
		}
	}
	if o := types.Universe.Lookup(s); o != nil {
		if _, ok := o.(*types.TypeName); ok {
			return o.Type()
		}
	}
	return nil
}

func matchBracket(s string, open int) int {
	d := 0
	for i := open; i < len(s); i++ {
		switch s[i] {
		case '[':
			d++
		case ']':
			d--
			if d == 0 {
				return i
			}
		}
	}
	return -1
}

func boolVal(t string) Val { return Val{T: t, S: sBool, GoT: types.Typ[types.Bool]} }
func intVal(t string) Val  { return Val{T: t, S: sInt, GoT: types.Typ[types.Int]} }

func (env *SpecEnv) eval(x Expr) Val {
	e := env.ex
	switch x := x.(type) {
	case EInt:
		v, err := strconv.ParseInt(x.V, 0, 64)
		if e.ctx.bv {
			bi, _ := new(big.Int).SetString(x.V, 0)
			return Val{T: bvLit(bi, 64), S: bvSort(64), GoT: types.Typ[types.Int]}
		}
		if err != nil {
			return intVal(x.V)
		}
		return intVal(num(v))
	case EFloat:
		f, _ := strconv.ParseFloat(x.V, 64)
		return Val{T: e.ctx.floatLit(f), S: sF, GoT: types.Typ[types.Float64]}
	case EStr:
		return Val{T: e.ctx.strLit(x.V), S: sStr, GoT: types.Typ[types.String]}
	case EBool:
		if x.V {
			return boolVal("true")
		}
		return boolVal("false")
	case ENil:
		return Val{T: "0", S: sInt, GoT: types.Typ[types.UntypedNil]}
	case EIdent:
		return env.ident(x.Name)
	case EUn:
		if x.Op == "&" {
			// address of a heap-allocated local variable
			if id, ok := x.X.(EIdent); ok && env.addrs != nil {
				if p, ok := env.addrs[id.Name]; ok {
					return p
				}
			}
			if id, ok := x.X.(EIdent); ok && env.fr != nil {
				if p, ok := env.fr.captured[id.Name]; ok && p.T != "" {
					return p
				}
				for _, a := range env.fr.locals[id.Name] {
					if pv, ok := env.fr.vals[a]; ok && pv.T != "" {
						return Val{T: pv.T, S: sInt, GoT: a.Type()}
					}
				}
			}
			if _, isSel := x.X.(ESel); isSel {
				if p, ok := env.ptrTo(x.X); ok {
					return p
				}
			}
			return env.fail("cannot take the address of %s", exprString(x.X))
		}
		v := env.eval(x.X)
		switch x.Op {
		case "!":
			return boolVal(not(v.T))
		case "-":
			if e.ctx.bv {
				if v.S == sF {
					return Val{T: app("fp.neg", v.T), S: sF, GoT: v.GoT}
				}
				return Val{T: app("bvneg", v.T), S: v.S, GoT: v.GoT}
			}
			if v.S == sF {
				return Val{T: app("f_neg", v.T), S: sF, GoT: v.GoT}
			}
			return intVal("(- " + v.T + ")")
		case "*":
			if v.GoT != nil {
				if p, ok := v.GoT.Underlying().(*types.Pointer); ok {
					return env.loadRef(v.T, p.Elem())
				}
			}
			return env.fail("cannot dereference %s", exprString(x.X))
		}
	case EBin:
		return env.binary(x)
	case ESel:
		return env.selector(x)
	case EIndex:
		return env.index(x)
	case ESlice:
		return env.sliceExpr(x)
	case ECall:
		return env.callExpr(x)
	case EQuant:
		return env.quant(x)
	case valExpr:
		return x.v
	}
	return env.fail("cannot evaluate %s", exprString(x))
}

func (env *SpecEnv) ident(name string) Val {
	e := env.ex
	if v, ok := env.vars[name]; ok {
		return v
	}
	// local variable of the frame
	if env.fr != nil && !env.typeOnly {
		if v, ok := env.localVar(name); ok {
			return v
		}
		if g, ok := env.st.ghost[name]; ok {
			return g
		}
		if p, ok := env.fr.captured[name]; ok && p.T != "" {
			if pt, ok := p.GoT.Underlying().(*types.Pointer); ok {
				return env.loadRef(p.T, pt.Elem())
			}
		}
		if p, ok := env.fr.entryParams[name]; ok {
			return p
		}
	}
	if env.st != nil {
		if g, ok := env.st.ghost[name]; ok {
			return g
		}
	}
	if g, ok := e.ss.GhostVars[name]; ok && env.st != nil {
		return env.ghostVar(g)
	}
	// package-level object
	if pkg := env.pkg(); pkg != nil {
		if o := pkg.Scope().Lookup(name); o != nil {
			switch o := o.(type) {
			case *types.Const:
				t := o.Type()
				if b, ok := t.Underlying().(*types.Basic); ok && b.Info()&types.IsUntyped != 0 {
					t = types.Default(t)
				}
				return Val{T: e.ctx.constTerm(o.Val(), t), S: e.ctx.sortOf(t), GoT: t}
			case *types.Var:
				if sp := e.w.SPkgs[pkg.Path()]; sp != nil {
					if g, ok := sp.Members[name].(*ssa.Global); ok {
						ref := e.globalRef(g)
						return env.loadRef(ref, o.Type())
					}
				}
			}
		}
	}
	if o := types.Universe.Lookup(name); o != nil {
		if c, ok := o.(*types.Const); ok {
			return Val{T: e.ctx.constTerm(c.Val(), types.Default(c.Type())), S: e.ctx.sortOf(types.Default(c.Type())), GoT: types.Default(c.Type())}
		}
	}
	return env.fail("unresolved name %q in contract of %s", name, env.fnName())
}

// ghostVar: a specification-only global variable (a total map), kept in the
// ghost heap G$<name>.
func (env *SpecEnv) ghostVar(g GhostDecl) Val {
	e := env.ex
	denv := *env
	denv.fn = nil
	denv.spec = &FuncSpec{Pkg: g.Init}
	t := denv.resolveType(g.Type)
	if t == nil {
		return env.fail("ghostvar %s: unknown type %s", g.Name, g.Type)
	}
	name := "G$" + g.Name
	sort := e.ctx.sortOf(t)
	if mt, ok := t.Underlying().(*types.Map); ok {
		sort = arraySort(e.ctx.sortOf(mt.Key()), e.ctx.sortOf(mt.Elem()))
	}
	e.regHeap(name, sort, nil, 'g', "")
	return Val{T: e.heapTerm(env.st, name), S: sort, GoT: t, Ghost: true}
}

func (env *SpecEnv) fnName() string {
	if env.fn != nil {
		return funcKey(env.fn)
	}
	if env.spec != nil {
		return env.spec.Target
	}
	return "?"
}

// loadRef reads the value of Go type t stored in the object ref.
func (env *SpecEnv) loadRef(ref string, t types.Type) Val {
	e := env.ex
	s := e.ctx.sortOf(t)
	if env.typeOnly {
		return Val{T: "x", S: s, GoT: t}
	}
	if g, ok := e.globalByRef[ref]; ok && e.constGlobal(g) {
		return e.constGlobalVal(g, t)
	}
	switch {
	case isStruct(t):
		return Val{T: e.loadObj(env.st, ref, t), S: s, GoT: t}
	case isArray(t):
		return Val{T: sel(e.heapTerm(env.st, e.elemHeap(t.Underlying().(*types.Array).Elem())), ref), S: s, GoT: t}
	}
	return Val{T: e.derefTerm(env.st, ref, t), S: s, GoT: t}
}

// localVar finds the source variable called name in the frame's function:
// the parameter entry value for `old`, the cell contents otherwise.
func (env *SpecEnv) localVar(name string) (Val, bool) {
	fr := env.fr
	allocs := fr.locals[name]
	if name == "rangeslice" && env.hdr != nil {
		// the (otherwise unnamed) slice a `for ... range` loop iterates over
		for _, in := range env.hdr.Instrs {
			if b, ok := in.(*ssa.BinOp); ok && b.Op == token.LSS {
				if c, ok := b.Y.(*ssa.Call); ok {
					if bi, ok := c.Call.Value.(*ssa.Builtin); ok && bi.Name() == "len" && len(c.Call.Args) == 1 {
						v := env.ex.val(fr, c.Call.Args[0])
						if v.T != "" && v.Bad == "" {
							v.GoT = c.Call.Args[0].Type()
							return v, true
						}
					}
				}
			}
		}
		return Val{}, false
	}
	if name == "rangeindex" && env.hdr != nil {
		for _, in := range env.hdr.Instrs {
			if s, ok := in.(*ssa.Store); ok {
				if a, ok := s.Addr.(*ssa.Alloc); ok && a.Comment == "rangeindex" {
					allocs = []*ssa.Alloc{a}
				}
			}
		}
	}
	if len(allocs) == 0 {
		return Val{}, false
	}
	a := allocs[0]
	if len(allocs) > 1 {
		// choose by scope: the declaration that is visible at the loop header,
		// approximated by the last alloc positioned before the header.
		best := allocs[0]
		if env.hdr != nil {
			hp := firstPos(env.hdr)
			have := func(c *ssa.Alloc) bool {
				if _, ok := env.st.cells[c]; ok {
					return true
				}
				_, ok := fr.vals[c]
				return ok && c.Heap
			}
			if !have(best) {
				for _, c := range allocs {
					if have(c) {
						best = c
						break
					}
				}
			}
			for _, c := range allocs {
				// a declaration that has not been executed on this path is not in scope
				if c.Pos().IsValid() && hp.IsValid() && c.Pos() <= hp && c.Pos() >= best.Pos() && have(c) {
					best = c
				}
			}
		}
		a = best
	}
	t := a.Type().Underlying().(*types.Pointer).Elem()
	if env.st == env.old && env.old != nil {
		// old(param): entry value
		if p, ok := fr.entryParams[name]; ok {
			return p, true
		}
	}
	if v, ok := env.st.cells[a]; ok {
		if v.GoT == nil {
			v.GoT = t
		}
		return v, true
	}
	// heap-allocated local (captured or struct): its current content
	if pv, ok := fr.vals[a]; ok && pv.T != "" {
		return env.loadRef(pv.T, t), true
	}
	if p, ok := fr.entryParams[name]; ok {
		return p, true
	}
	return Val{}, false
}

func (env *SpecEnv) binary(x EBin) Val {
	e := env.ex
	switch x.Op {
	case "&&":
		return boolVal(and(env.eval(x.L).T, env.eval(x.R).T))
	case "||":
		return boolVal(or(env.eval(x.L).T, env.eval(x.R).T))
	case "==>":
		return boolVal(imp(env.eval(x.L).T, env.eval(x.R).T))
	case "<==>":
		return boolVal(eq(env.eval(x.L).T, env.eval(x.R).T))
	case "in":
		k := env.eval(x.L)
		m := env.eval(x.R)
		if m.GoT != nil {
			if mt, ok := m.GoT.Underlying().(*types.Map); ok {
				if env.typeOnly {
					return boolVal("true")
				}
				return boolVal(e.mapHas(env.st, mt, m.T, k.T))
			}
		}
		if strings.HasPrefix(m.S, "(Array") {
			return boolVal(sel(m.T, k.T))
		}
		return env.fail("`in` needs a map or set on the right: %s", exprString(x))
	}
	l, r := env.eval(x.L), env.eval(x.R)
	if e.ctx.bv {
		return env.binaryBV(x, l, r)
	}
	// nil against slice / interface
	if _, ok := x.R.(ENil); ok {
		r = env.nilOf(l)
	}
	if _, ok := x.L.(ENil); ok {
		l = env.nilOf(r)
	}
	s := l.S
	if s == "" {
		s = r.S
	}
	switch x.Op {
	case "==", "!=":
		var t string
		switch s {
		case sF:
			t = app("f_eq", l.T, r.T)
		case sSlice:
			if _, ok := x.R.(ENil); ok {
				t = eq(slRef(l.T), "0")
			} else if _, ok := x.L.(ENil); ok {
				t = eq(slRef(r.T), "0")
			} else {
				t = eq(l.T, r.T)
			}
		default:
			t = eq(l.T, r.T)
		}
		if x.Op == "!=" {
			t = not(t)
		}
		return boolVal(t)
	case "<", "<=", ">", ">=":
		if s == sStr {
			switch x.Op {
			case "<":
				return boolVal(app("s_lt", l.T, r.T))
			case ">":
				return boolVal(app("s_lt", r.T, l.T))
			case "<=":
				return boolVal(not(app("s_lt", r.T, l.T)))
			default:
				return boolVal(not(app("s_lt", l.T, r.T)))
			}
		}
		if s == sF {
			// mixed int/float literals
			l, r = env.toF(l), env.toF(r)
			switch x.Op {
			case "<":
				return boolVal(app("f_lt", l.T, r.T))
			case "<=":
				return boolVal(app("f_le", l.T, r.T))
			case ">":
				return boolVal(app("f_lt", r.T, l.T))
			default:
				return boolVal(app("f_le", r.T, l.T))
			}
		}
		if l.S == sF || r.S == sF {
			l, r = env.toF(l), env.toF(r)
			if l.S != sF || r.S != sF {
				return env.fail("cannot compare %s and %s as floats", exprString(x.L), exprString(x.R))
			}
			return env.binary(EBin{x.Op, valExpr{l}, valExpr{r}})
		}
		switch x.Op {
		case "<":
			return boolVal(lt(l.T, r.T))
		case "<=":
			return boolVal(le(l.T, r.T))
		case ">":
			return boolVal(lt(r.T, l.T))
		default:
			return boolVal(le(r.T, l.T))
		}
	case "+":
		if s == sStr {
			return Val{T: app("scat", l.T, r.T), S: sStr, GoT: types.Typ[types.String]}
		}
		if s == sF {
			return Val{T: app("f_add", l.T, r.T), S: sF, GoT: l.GoT}
		}
		return intVal(add(l.T, r.T))
	case "-":
		if s == sF {
			return Val{T: app("f_sub", l.T, r.T), S: sF, GoT: l.GoT}
		}
		return intVal(sub(l.T, r.T))
	case "*":
		if s == sF {
			return Val{T: app("f_mul", l.T, r.T), S: sF, GoT: l.GoT}
		}
		return intVal("(* " + l.T + " " + r.T + ")")
	case "/":
		if s == sF {
			return Val{T: app("f_div", l.T, r.T), S: sF, GoT: l.GoT}
		}
		return intVal("(div " + l.T + " " + r.T + ")")
	case "%":
		return intVal("(mod " + l.T + " " + r.T + ")")
	case "<<":
		if k, ok := smallConst(r.T); ok {
			return intVal("(* " + l.T + " " + num(int64(1)<<uint(k)) + ")")
		}
	}
	return env.fail("operator %s not supported in %s", x.Op, exprString(x))
}

// valExpr lets an already evaluated value be used as an expression.
type valExpr struct{ v Val }

func (env *SpecEnv) toF(v Val) Val {
	if v.S == sInt {
		return Val{T: app("i2f", v.T), S: sF, GoT: types.Typ[types.Float64]}
	}
	return v
}

func (env *SpecEnv) nilOf(like Val) Val {
	switch like.S {
	case sSlice:
		return Val{T: nilSlice, S: sSlice, GoT: like.GoT}
	case sIface:
		return Val{T: "(mk_iface 0 0)", S: sIface, GoT: like.GoT}
	}
	return Val{T: "0", S: sInt, GoT: like.GoT}
}

func (env *SpecEnv) selector(x ESel) Val {
	e := env.ex
	// package-qualified constant/variable: pkg.Name
	if id, ok := x.X.(EIdent); ok {
		if _, isVar := env.vars[id.Name]; !isVar {
			if _, isLocal := env.lookupLocalOK(id.Name); !isLocal {
				for _, sp := range e.w.SPkgs {
					if sp.Pkg.Name() == id.Name {
						if o := sp.Pkg.Scope().Lookup(x.Name); o != nil {
							switch o := o.(type) {
							case *types.Const:
								t := types.Default(o.Type())
								return Val{T: e.ctx.constTerm(o.Val(), t), S: e.ctx.sortOf(t), GoT: t}
							case *types.Var:
								if g, ok := sp.Members[x.Name].(*ssa.Global); ok {
									return env.loadRef(e.globalRef(g), o.Type())
								}
							}
						}
					}
				}
			}
		}
	}
	v := env.eval(x.X)
	if v.GoT == nil {
		return env.fail("selector on untyped value: %s", exprString(x))
	}
	t := v.GoT
	ref := ""
	if p, ok := t.Underlying().(*types.Pointer); ok {
		ref = v.T
		t = p.Elem()
	}
	st, ok := t.Underlying().(*types.Struct)
	if !ok {
		return env.fail("selector %s on non-struct %s", x.Name, t)
	}
	for i := 0; i < st.NumFields(); i++ {
		if st.Field(i).Name() != x.Name {
			continue
		}
		ft := st.Field(i).Type()
		fs := e.ctx.sortOf(ft)
		if env.typeOnly {
			return Val{T: "x", S: fs, GoT: ft}
		}
		if ref != "" {
			if isStruct(ft) {
				return Val{T: e.loadObj(env.st, app("emb", ref, num(int64(i))), ft), S: fs, GoT: ft}
			}
			return Val{T: sel(e.heapTerm(env.st, e.fieldHeap(t, i)), ref), S: fs, GoT: ft}
		}
		si := e.ctx.structSort(t)
		return Val{T: si.get(v.T, i), S: fs, GoT: ft}
	}
	return env.fail("no field %s in %s", x.Name, t)
}

func (env *SpecEnv) lookupLocalOK(name string) (Val, bool) {
	if env.fr == nil {
		return Val{}, false
	}
	_, ok := env.fr.locals[name]
	return Val{}, ok
}

func (env *SpecEnv) index(x EIndex) Val {
	e := env.ex
	v := env.eval(x.X)
	i := env.eval(x.I)
	if v.GoT == nil {
		if strings.HasPrefix(v.S, "(Array") {
			return Val{T: sel(v.T, i.T), S: sBool}
		}
		return env.fail("index on untyped value %s", exprString(x))
	}
	if v.Ghost {
		if mt, ok := v.GoT.Underlying().(*types.Map); ok {
			return Val{T: sel(v.T, i.T), S: e.ctx.sortOf(mt.Elem()), GoT: mt.Elem()}
		}
	}
	switch u := v.GoT.Underlying().(type) {
	case *types.Slice:
		s := e.ctx.sortOf(u.Elem())
		if env.typeOnly {
			return Val{T: "x", S: s, GoT: u.Elem()}
		}
		h := e.heapTerm(env.st, e.elemHeap(u.Elem()))
		return Val{T: e.elemAt(h, u.Elem(), v.T, i.T), S: s, GoT: u.Elem()}
	case *types.Map:
		s := e.ctx.sortOf(u.Elem())
		if env.typeOnly {
			return Val{T: "x", S: s, GoT: u.Elem()}
		}
		return Val{T: e.mapGet(env.st, u, v.T, i.T), S: s, GoT: u.Elem()}
	case *types.Basic:
		return intVal(app("sat", v.T, i.T))
	case *types.Array:
		return Val{T: sel(v.T, i.T), S: e.ctx.sortOf(u.Elem()), GoT: u.Elem()}
	}
	return env.fail("cannot index %s", exprString(x))
}

func (env *SpecEnv) sliceExpr(x ESlice) Val {
	v := env.eval(x.X)
	lo := "0"
	if x.Lo != nil {
		lo = env.eval(x.Lo).T
	}
	if v.S == sStr {
		hi := app("slen", v.T)
		if x.Hi != nil {
			hi = env.eval(x.Hi).T
		}
		return Val{T: app("ssub", v.T, lo, hi), S: sStr, GoT: v.GoT}
	}
	if v.S == sSlice {
		hi := slLen(v.T)
		if x.Hi != nil {
			hi = env.eval(x.Hi).T
		}
		return Val{T: mkSlice(slRef(v.T), add(slOff(v.T), lo), sub(hi, lo), sub(slCap(v.T), lo)), S: sSlice, GoT: v.GoT}
	}
	return env.fail("cannot slice %s", exprString(x))
}

func (env *SpecEnv) quant(x EQuant) Val {
	e := env.ex
	c := env.child()
	var binds []string
	var guards []string
	for _, qv := range x.Vars {
		t := env.resolveType(qv.Type)
		if t == nil {
			return env.fail("unknown type %q in quantifier", qv.Type)
		}
		e.qn++
		name := fmt.Sprintf("%s_q%d", sanitize(qv.Name), e.qn)
		s := e.ctx.sortOf(t)
		binds = append(binds, "("+name+" "+s+")")
		c.vars[qv.Name] = Val{T: name, S: s, GoT: t}
		_ = guards
	}
	body := c.eval(x.Body)
	q := "exists"
	if x.Forall {
		q = "forall"
	}
	return boolVal("(" + q + " (" + strings.Join(binds, " ") + ") " + body.T + ")")
}

func (env *SpecEnv) callExpr(x ECall) Val {
	e := env.ex
	switch x.Fn {
	case "len":
		v := env.eval(x.Args[0])
		switch v.S {
		case sSlice:
			return intVal(slLen(v.T))
		case sStr:
			return intVal(app("slen", v.T))
		}
		if v.GoT != nil {
			if mt, ok := v.GoT.Underlying().(*types.Map); ok {
				if env.typeOnly {
					return intVal("0")
				}
				return intVal(e.mapLen(env.st, mt, v.T))
			}
			if at, ok := v.GoT.Underlying().(*types.Array); ok {
				return intVal(num(at.Len()))
			}
		}
		return env.fail("len of %s", exprString(x.Args[0]))
	case "cap":
		v := env.eval(x.Args[0])
		return intVal(slCap(v.T))
	case "old":
		if env.old == nil {
			return env.eval(x.Args[0])
		}
		return env.inOld().eval(x.Args[0])
	case "fresh":
		v := env.eval(x.Args[0])
		ref := v.T
		if v.S == sSlice {
			ref = slRef(v.T)
		}
		return boolVal(and(le(env.nextRef0, app("root", ref)), lt("0", ref)))
	case "allocated":
		v := env.eval(x.Args[0])
		ref := v.T
		if v.S == sSlice {
			ref = slRef(v.T)
		}
		return boolVal(lt(app("root", ref), env.st.nextRef))
	case "ref":
		v := env.eval(x.Args[0])
		if v.S == sSlice {
			return intVal(slRef(v.T))
		}
		return intVal(v.T)
	case "off":
		v := env.eval(x.Args[0])
		return intVal(slOff(v.T))
	case "same":
		// identical values (for floats: the same datum, NaN included)
		a, b := env.eval(x.Args[0]), env.eval(x.Args[1])
		return boolVal(eq(a.T, b.T))
	case "update":
		g, k, v := env.eval(x.Args[0]), env.eval(x.Args[1]), env.eval(x.Args[2])
		return Val{T: sto(g.T, k.T, v.T), S: g.S, GoT: g.GoT, Ghost: g.Ghost}
	case "ite":
		c, a, b := env.eval(x.Args[0]), env.eval(x.Args[1]), env.eval(x.Args[2])
		return Val{T: ite(c.T, a.T, b.T), S: a.S, GoT: a.GoT}
	case "int":
		v := env.eval(x.Args[0])
		if e.ctx.bv {
			if v.S == sF {
				return Val{T: app("(_ fp.to_sbv 64)", "RTZ", v.T), S: bvSort(64), GoT: types.Typ[types.Int]}
			}
			return v
		}
		if v.S == sF {
			return intVal(app("f2i", v.T))
		}
		return intVal(v.T)
	case "float64":
		v := env.eval(x.Args[0])
		if e.ctx.bv {
			if v.S != sF {
				return Val{T: app("(_ to_fp 11 53)", "RNE", v.T), S: sF, GoT: types.Typ[types.Float64]}
			}
			return v
		}
		if v.S == sInt {
			return Val{T: app("i2f", v.T), S: sF, GoT: types.Typ[types.Float64]}
		}
		return v
	case "bytesOf":
		// the string with the bytes of a []byte value
		v := env.eval(x.Args[0])
		if v.S != sSlice {
			return env.fail("bytesOf needs a []byte")
		}
		e.declareByteStr()
		var bel types.Type = types.Universe.Lookup("byte").Type()
		if v.GoT != nil {
			if sl, ok := v.GoT.Underlying().(*types.Slice); ok {
				bel = sl.Elem()
			}
		}
		arr := sel(e.heapTerm(env.st, e.elemHeap(bel)), slRef(v.T))
		return Val{T: app("bytes_str", arr, slOff(v.T), slLen(v.T)), S: sStr, GoT: types.Typ[types.String]}
	case "fabs":
		// |x| of a float: math.Abs
		v := env.eval(x.Args[0])
		if e.ctx.bv {
			return Val{T: app("fp.abs", v.T), S: sF, GoT: types.Typ[types.Float64]}
		}
		e.ctx.declareFun("fn$math.Abs", []string{sF}, sF)
		return Val{T: app("fn$math.Abs", v.T), S: sF, GoT: types.Typ[types.Float64]}
	case "isNaN":
		v := env.eval(x.Args[0])
		if e.ctx.bv {
			return boolVal(app("fp.isNaN", v.T))
		}
		return boolVal(not(app("f_eq", v.T, v.T)))
	case "finite":
		v := env.eval(x.Args[0])
		if e.ctx.bv {
			return boolVal(and(not(app("fp.isNaN", v.T)), not(app("fp.isInfinite", v.T))))
		}
		return boolVal(app("f_fin", v.T))
	case "typeis":
		v := env.eval(x.Args[0])
		id, _ := x.Args[1].(EIdent)
		t := env.resolveType(id.Name)
		if sel, ok := x.Args[1].(EUn); ok {
			_ = sel
		}
		if t == nil {
			if s, ok := x.Args[1].(EStr); ok {
				t = env.resolveType(s.V)
			}
		}
		if t == nil {
			return env.fail("unknown type in typeis")
		}
		return boolVal(eq(app("if_tag", v.T), num(int64(e.typeTag(t)))))
	case "unbox":
		v := env.eval(x.Args[0])
		var t types.Type
		if s, ok := x.Args[1].(EStr); ok {
			t = env.resolveType(s.V)
		} else if id, ok := x.Args[1].(EIdent); ok {
			t = env.resolveType(id.Name)
		}
		if t == nil {
			return env.fail("unknown type in unbox")
		}
		ub := e.unbox(app("if_val", v.T), t)
		if !e.ctx.bv && !env.typeOnly && env.st != nil && !boundVarRe.MatchString(ub) {
			switch t.Underlying().(type) {
			case *types.Pointer, *types.Map, *types.Chan:
				// a reference held in an interface value points to an allocated object (or is nil)
				key := "unboxalloc:" + ub + ":" + env.st.nextRef
				if !e.boxAx[key] {
					e.boxAx[key] = true
					e.ctx.assume(imp(eq(app("if_tag", v.T), num(int64(e.typeTag(t)))), lt(app("root", ub), env.st.nextRef)))
				}
			}
		}
		return Val{T: ub, S: e.ctx.sortOf(t), GoT: t}
	case "visited":
		// visited() -> the ghost set of the innermost map range; visited(k) membership
		name := env.innermostRange("$visited")
		if name == "" {
			return env.fail("visited: no map range in scope")
		}
		g := env.st.ghost[name]
		if len(x.Args) == 1 {
			k := env.eval(x.Args[0])
			return boolVal(sel(g.T, k.T))
		}
		return g
	case "nvisited":
		name := env.innermostRange("$n")
		if name == "" {
			return env.fail("nvisited: no map range in scope")
		}
		return intVal(env.st.ghost[name].T)
	case "strpos":
		name := env.innermostRange("$pos")
		if name == "" {
			return env.fail("strpos: no string range in scope")
		}
		return intVal(env.st.ghost[name].T)
	case "pointee":
		// pointee(s, x): x is one of the objects the elements of slice s pointed
		// to at function entry
		if env.old == nil {
			return env.fail("pointee: no entry state")
		}
		sv := env.inOld().eval(x.Args[0])
		xv := env.eval(x.Args[1])
		sl, ok := sv.GoT.Underlying().(*types.Slice)
		if !ok {
			return env.fail("pointee: first argument must be a slice of pointers")
		}
		return boolVal(sel(e.pointeeSet(env.old, sv, sl), xv.T))
	case "nextref":
		// the allocation counter: every object allocated from now on has a
		// reference >= nextref()
		return intVal(env.st.nextRef)
	case "wgtok", "wgst", "mayclose", "chcredit":
		// thread-local ghost permissions of the current goroutine:
		// wgtok(wgptr): outstanding WaitGroup.Add units it owns (it still has to
		// call Done for them); wgst(wgptr): 0 nothing, 1 it created the WaitGroup
		// and may still Add, 2 it may Wait (no Add can follow), 3 it has returned
		// from Wait; mayclose(ch): 1 if it holds the unique, unused permission to
		// close channel ch; chcredit(ch): free buffer slots of channel ch reserved
		// for this goroutine (a send that uses one cannot block)
		v := env.eval(x.Args[0])
		return intVal(sel(e.tlHeap(env.st, "G$"+x.Fn), v.T))
	case "held":
		// held(mutexptr) -> lock mode 0 none, 1 read, 2 write
		v := env.eval(x.Args[0])
		return intVal(sel(e.lockHeap(env.st), v.T))
	}
	if sf, ok := e.ss.SpecFns[x.Fn]; ok {
		return env.specCall(sf, x)
	}
	return env.fail("unknown function %s in contract", x.Fn)
}

func (env *SpecEnv) innermostRange(suffix string) string {
	best := ""
	for k := range env.st.ghost {
		if strings.HasPrefix(k, "range$") && strings.HasSuffix(k, suffix) {
			if best == "" || len(k) > len(best) || (len(k) == len(best) && k > best) {
				best = k
			}
		}
	}
	return best
}

func (env *SpecEnv) specCall(sf *SpecFn, x ECall) Val {
	e := env.ex
	if len(x.Args) != len(sf.Params) {
		return env.fail("spec function %s: wrong number of arguments", sf.Name)
	}
	var args []Val
	for _, a := range x.Args {
		args = append(args, env.eval(a))
	}
	denv := *env
	if sf.Pkg != "" {
		if sp, ok := e.w.SPkgs[sf.Pkg]; ok {
			denv.fn = nil
			denv.spec = &FuncSpec{Pkg: sp.Pkg.Path()}
		}
	}
	rt := denv.resolveType(sf.Ret)
	if sf.Body == nil {
		// uninterpreted
		var asorts, aterms []string
		for i, a := range args {
			pt := denv.resolveType(sf.Params[i].Type)
			s := a.S
			if pt != nil {
				s = e.ctx.sortOf(pt)
			}
			asorts = append(asorts, s)
			aterms = append(aterms, a.T)
		}
		rs := sBool
		if rt != nil {
			rs = e.ctx.sortOf(rt)
		}
		// an uninterpreted function that reads memory (elements of a slice
		// argument, a field of the objects it points to) is a function of those
		// heaps as well: they are passed as additional arguments
		for _, rd := range sf.Reads {
			var h string
			switch {
			case strings.HasPrefix(rd, "E:"):
				t := denv.resolveType(rd[2:])
				if t == nil {
					return env.fail("spec %s reads: unknown type %s", sf.Name, rd[2:])
				}
				h = e.elemHeap(t)
			case strings.HasPrefix(rd, "H:"):
				k := strings.LastIndex(rd, ".")
				t := denv.resolveType(rd[2:k])
				if t == nil {
					return env.fail("spec %s reads: unknown type %s", sf.Name, rd[2:k])
				}
				st, ok := t.Underlying().(*types.Struct)
				if !ok {
					return env.fail("spec %s reads: %s is not a struct", sf.Name, rd[2:k])
				}
				for i := 0; i < st.NumFields(); i++ {
					if st.Field(i).Name() == rd[k+1:] {
						h = e.fieldHeap(t, i)
					}
				}
			}
			if h == "" {
				return env.fail("spec %s: cannot interpret reads item %s", sf.Name, rd)
			}
			if env.typeOnly || env.st == nil {
				continue
			}
			ht := e.heapTerm(env.st, h)
			asorts = append(asorts, e.heapInfos[h].sort)
			aterms = append(aterms, ht)
		}
		name := "spec$" + sanitize(sf.Name)
		if len(aterms) == 0 {
			e.ctx.declare(name, rs)
			return Val{T: name, S: rs, GoT: rt}
		}
		e.ctx.declareFun(name, asorts, rs)
		return Val{T: app(name, aterms...), S: rs, GoT: rt}
	}
	if env.depth > 8 {
		return env.fail("spec function %s: expansion too deep", sf.Name)
	}
	c := denv.child()
	c.depth = env.depth + 1
	c.fr = nil
	c.vars = map[string]Val{}
	for i, p := range sf.Params {
		v := args[i]
		if pt := denv.resolveType(p.Type); pt != nil {
			v.GoT = pt
		}
		c.vars[p.Name] = v
	}
	r := c.eval(sf.Body)
	if rt != nil && r.GoT == nil {
		r.GoT = rt
	}
	return r
}

// evalLoc turns a `modifies` item into heap locations.
//   p.f            field f of object p
//   elems(s)       the backing array of slice s
//   entries(m)     the contents of map m
//   fields(p)      every field of *p
//   box(p)         the variable p points to
func (env *SpecEnv) evalLoc(x Expr) []heapLoc {
	e := env.ex
	switch x := x.(type) {
	case ESel:
		v, okp := env.ptrTo(x.X)
		if !okp {
			env.fail("modifies: %s is not a field of a heap object", exprString(x))
			return nil
		}
		p := v.GoT.Underlying().(*types.Pointer)
		st := p.Elem().Underlying().(*types.Struct)
		for i := 0; i < st.NumFields(); i++ {
			if st.Field(i).Name() == x.Name {
				if isStruct(st.Field(i).Type()) {
					return env.allFields(app("emb", v.T, num(int64(i))), st.Field(i).Type())
				}
				return []heapLoc{{heap: e.fieldHeap(p.Elem(), i), ref: v.T}}
			}
		}
	case ECall:
		if x.Fn == "elemsSince" && len(x.Args) == 2 {
			// elemsSince(s, b): every backing array of slices with the element type
			// of s that was allocated when the allocation counter was >= b
			v := env.eval(x.Args[0])
			b := env.eval(x.Args[1])
			if v.GoT != nil {
				if sl, ok := v.GoT.Underlying().(*types.Slice); ok {
					bt := b.T
					return []heapLoc{{heap: e.elemHeap(sl.Elem()), pred: func(r string) string { return le(bt, r) }}}
				}
			}
			break
		}
		if len(x.Args) != 1 {
			break
		}
		if x.Fn == "allof" {
			// allof(T.f): field f of every object of struct type T
			if sel, ok := x.Args[0].(ESel); ok {
				t := env.resolveType(exprString(sel.X))
				if t != nil {
					if st, ok := t.Underlying().(*types.Struct); ok {
						for i := 0; i < st.NumFields(); i++ {
							if st.Field(i).Name() == sel.Name && !isStruct(st.Field(i).Type()) {
								return []heapLoc{{heap: e.fieldHeap(t, i), all: true}}
							}
						}
					}
				}
			}
			break
		}
		v := env.eval(x.Args[0])
		if v.GoT == nil {
			env.fail("modifies: untyped %s", exprString(x))
			return nil
		}
		switch x.Fn {
		case "elems":
			if sl, ok := v.GoT.Underlying().(*types.Slice); ok {
				return []heapLoc{{heap: e.elemHeap(sl.Elem()), ref: slRef(v.T)}}
			}
		case "entries":
			if mt, ok := v.GoT.Underlying().(*types.Map); ok {
				md, mv := e.mapHeaps(mt)
				return []heapLoc{{heap: md, ref: v.T}, {heap: mv, ref: v.T}}
			}
		case "fields":
			if p, ok := v.GoT.Underlying().(*types.Pointer); ok && isStruct(p.Elem()) {
				return env.allFields(v.T, p.Elem())
			}
		case "box":
			if p, ok := v.GoT.Underlying().(*types.Pointer); ok {
				return []heapLoc{{heap: e.boxHeap(p.Elem()), ref: v.T}}
			}
		case "anyelems":
			// anyelems(s): every backing array of slices with the element type of s
			// (used for containers whose array is reallocated by other goroutines)
			if sl, ok := v.GoT.Underlying().(*types.Slice); ok {
				return []heapLoc{{heap: e.elemHeap(sl.Elem()), all: true}}
			}
		case "since":
			// since(b): every object (of any type) whose reference is >= b, i.e.
			// allocated after the allocation counter had the value b
			b := v.T
			return []heapLoc{{heap: "*", pred: func(r string) string { return le(b, app("root", r)) }}}
		case "pointees":
			// every field of every object pointed to by an element of the slice
			if sl, ok := v.GoT.Underlying().(*types.Slice); ok {
				if p, ok := sl.Elem().Underlying().(*types.Pointer); ok && isStruct(p.Elem()) {
					var elemT func(k string) string
					if env.typeOnly {
						elemT = func(k string) string { return "0" }
					} else {
						ht := e.heapTerm(env.st, e.elemHeap(sl.Elem()))
						elemT = func(k string) string { return e.elemAt(ht, sl.Elem(), v.T, k) }
					}
					pred := func(r string) string {
						e.qn++
						k := fmt.Sprintf("k_q%d", e.qn)
						return fmt.Sprintf("(exists ((%s Int)) (and (<= 0 %s) (< %s %s) (= %s %s)))", k, k, k, slLen(v.T), r, elemT(k))
					}
					if env.ownFrame && !env.typeOnly {
						P := e.pointeeSet(env.st, v, sl)
						pred = func(r string) string { return sel(P, r) }
					}
					var out []heapLoc
					for _, hl := range env.allFields("0", p.Elem()) {
						out = append(out, heapLoc{heap: hl.heap, pred: pred})
					}
					return out
				}
			}
		}
	}
	env.fail("modifies: cannot interpret location %s", exprString(x))
	return nil
}

// ptrTo returns a pointer to the struct denoted by x when x is a pointer, a
// dereference, or an embedded struct field of a heap object.
func (env *SpecEnv) ptrTo(x Expr) (Val, bool) {
	if u, ok := x.(EUn); ok && u.Op == "*" {
		v := env.eval(u.X)
		if v.GoT != nil {
			if _, ok := v.GoT.Underlying().(*types.Pointer); ok {
				return v, true
			}
		}
		return Val{}, false
	}
	if s, ok := x.(ESel); ok {
		if base, ok := env.ptrTo(s.X); ok {
			st := base.GoT.Underlying().(*types.Pointer).Elem().Underlying().(*types.Struct)
			for i := 0; i < st.NumFields(); i++ {
				if st.Field(i).Name() == s.Name && isStruct(st.Field(i).Type()) {
					return Val{T: app("emb", base.T, num(int64(i))), S: sInt, GoT: types.NewPointer(st.Field(i).Type())}, true
				}
			}
		}
	}
	v := env.eval(x)
	if v.GoT != nil {
		if p, ok := v.GoT.Underlying().(*types.Pointer); ok && isStruct(p.Elem()) {
			return v, true
		}
	}
	return Val{}, false
}

func (env *SpecEnv) allFields(ref string, t types.Type) []heapLoc {
	e := env.ex
	st := t.Underlying().(*types.Struct)
	var out []heapLoc
	for i := 0; i < st.NumFields(); i++ {
		if isStruct(st.Field(i).Type()) {
			out = append(out, env.allFields(app("emb", ref, num(int64(i))), st.Field(i).Type())...)
		} else {
			out = append(out, heapLoc{heap: e.fieldHeap(t, i), ref: ref})
		}
	}
	return out
}

var _ = constant.MakeBool

// terms that mention a bound variable of an enclosing quantifier (x_q12)
var boundVarRe = regexp.MustCompile(`_q[0-9]+\b`)

// binaryBV: arithmetic and comparisons in bit-precise mode.
func (env *SpecEnv) binaryBV(x EBin, l, r Val) Val {
	isF := l.S == sF || r.S == sF
	if isF {
		conv := func(v Val) Val {
			if v.S == sF {
				return v
			}
			return Val{T: app("(_ to_fp 11 53)", "RNE", v.T), S: sF, GoT: types.Typ[types.Float64]}
		}
		l, r = conv(l), conv(r)
		switch x.Op {
		case "==":
			return boolVal(app("fp.eq", l.T, r.T))
		case "!=":
			return boolVal(not(app("fp.eq", l.T, r.T)))
		case "<":
			return boolVal(app("fp.lt", l.T, r.T))
		case "<=":
			return boolVal(app("fp.leq", l.T, r.T))
		case ">":
			return boolVal(app("fp.gt", l.T, r.T))
		case ">=":
			return boolVal(app("fp.geq", l.T, r.T))
		case "+":
			return Val{T: app("fp.add", "RNE", l.T, r.T), S: sF, GoT: l.GoT}
		case "-":
			return Val{T: app("fp.sub", "RNE", l.T, r.T), S: sF, GoT: l.GoT}
		case "*":
			return Val{T: app("fp.mul", "RNE", l.T, r.T), S: sF, GoT: l.GoT}
		case "/":
			return Val{T: app("fp.div", "RNE", l.T, r.T), S: sF, GoT: l.GoT}
		}
		return env.fail("operator %s on floats not supported", x.Op)
	}
	if l.S == sBool || l.S == sStr || l.S == sIface {
		switch x.Op {
		case "==":
			return boolVal(eq(l.T, r.T))
		case "!=":
			return boolVal(not(eq(l.T, r.T)))
		}
		if l.S == sStr {
			switch x.Op {
			case "<":
				return boolVal(app("s_lt", l.T, r.T))
			case ">":
				return boolVal(app("s_lt", r.T, l.T))
			case "<=":
				return boolVal(not(app("s_lt", r.T, l.T)))
			case ">=":
				return boolVal(not(app("s_lt", l.T, r.T)))
			}
		}
	}
	signed := true
	if l.GoT != nil {
		_, signed = bvWidth(l.GoT)
	}
	pick := func(s, u string) string {
		if signed {
			return s
		}
		return u
	}
	switch x.Op {
	case "==":
		return boolVal(eq(l.T, r.T))
	case "!=":
		return boolVal(not(eq(l.T, r.T)))
	case "<":
		return boolVal(app(pick("bvslt", "bvult"), l.T, r.T))
	case "<=":
		return boolVal(app(pick("bvsle", "bvule"), l.T, r.T))
	case ">":
		return boolVal(app(pick("bvsgt", "bvugt"), l.T, r.T))
	case ">=":
		return boolVal(app(pick("bvsge", "bvuge"), l.T, r.T))
	case "+":
		return Val{T: app("bvadd", l.T, r.T), S: l.S, GoT: l.GoT}
	case "-":
		return Val{T: app("bvsub", l.T, r.T), S: l.S, GoT: l.GoT}
	case "*":
		return Val{T: app("bvmul", l.T, r.T), S: l.S, GoT: l.GoT}
	case "/":
		return Val{T: app(pick("bvsdiv", "bvudiv"), l.T, r.T), S: l.S, GoT: l.GoT}
	case "<<":
		return Val{T: app("bvshl", l.T, r.T), S: l.S, GoT: l.GoT}
	}
	return env.fail("operator %s not supported in bv mode", x.Op)
}

// pointeeSet: the ghost set (characteristic array) of the objects the
// elements of slice v point to in state st, defined by two axioms.
func (e *Exec) pointeeSet(st *State, v Val, sl *types.Slice) string {
	key := "P$" + fmt.Sprintf("%x", hashString(v.T))
	if _, ok := e.ctx.declared[key]; ok {
		return key
	}
	e.ctx.declare(key, arraySort(sInt, sBool))
	ht := e.heapTerm(st, e.elemHeap(sl.Elem()))
	el := e.elemAt(ht, sl.Elem(), v.T, "j")
	e.ctx.assumeGlobal(fmt.Sprintf("(forall ((j Int)) (! (=> (and (<= 0 j) (< j %s)) (select %s %s)) :pattern (%s)))", slLen(v.T), key, el, el))
	e.ctx.assumeGlobal(fmt.Sprintf("(forall ((r Int)) (! (=> (select %s r) (exists ((j Int)) (and (<= 0 j) (< j %s) (= r %s)))) :pattern ((select %s r))))", key, slLen(v.T), el, key))
	return key
}

// evalClause evaluates a contract clause in the scope of the contract file it
// was written in (assumed contracts of external functions can be extended by
// several files).
func (env *SpecEnv) evalClause(c *Clause) Val {
	saved := env.pkgOverride
	env.pkgOverride = c.Pkg
	v := env.eval(c.E)
	env.pkgOverride = saved
	return v
}
