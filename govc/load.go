package main

import (
	"fmt"
	"go/token"
	"go/types"
	"os"
	"path/filepath"
	"sort"
	"strings"

	"golang.org/x/tools/go/packages"
	"golang.org/x/tools/go/ssa"
	"golang.org/x/tools/go/ssa/ssautil"
)

// World is everything loaded from one Go module of /repo.
type World struct {
	ModDir string
	Fset   *token.FileSet
	Pkgs   []*packages.Package
	Prog   *ssa.Program
	SPkgs  map[string]*ssa.Package // by import path
	Funcs  map[string]*ssa.Function
	tmpdir string
	constGlobals map[*ssa.Global]bool
}

// loadWorld loads the packages matching patterns from the module rooted at
// modDir, with build tag verif, using a private copy of go.mod/go.sum so that
// the repository is never written.
func loadWorld(modDir string, patterns []string) (*World, error) {
	tmp, err := os.MkdirTemp("", "govc-mod-")
	if err != nil {
		return nil, err
	}
	for _, f := range []string{"go.mod", "go.sum"} {
		b, err := os.ReadFile(filepath.Join(modDir, f))
		if err != nil {
			return nil, err
		}
		if err := os.WriteFile(filepath.Join(tmp, f), b, 0o644); err != nil {
			return nil, err
		}
	}
	cfg := &packages.Config{
		Mode:       packages.LoadAllSyntax,
		Dir:        modDir,
		BuildFlags: []string{"-tags=verif", "-modfile=" + filepath.Join(tmp, "go.mod")},
		Env: append(os.Environ(), "GOFLAGS=-mod=mod", "GOPROXY=off", "GOSUMDB=off",
			"GOTOOLCHAIN=local"),
	}
	pkgs, err := packages.Load(cfg, patterns...)
	if err != nil {
		return nil, err
	}
	nerr := 0
	packages.Visit(pkgs, nil, func(p *packages.Package) {
		for _, e := range p.Errors {
			if nerr < 10 {
				fmt.Fprintf(os.Stderr, "load error: %v\n", e)
			}
			nerr++
		}
	})
	if nerr > 0 {
		return nil, fmt.Errorf("%d load errors in %s", nerr, modDir)
	}
	prog, _ := ssautil.AllPackages(pkgs, ssa.NaiveForm|ssa.GlobalDebug)
	prog.Build()
	w := &World{ModDir: modDir, Pkgs: pkgs, Prog: prog, SPkgs: map[string]*ssa.Package{},
		Funcs: map[string]*ssa.Function{}, tmpdir: tmp, constGlobals: map[*ssa.Global]bool{}}
	if len(pkgs) > 0 {
		w.Fset = pkgs[0].Fset
	}
	for _, sp := range prog.AllPackages() {
		w.SPkgs[sp.Pkg.Path()] = sp
	}
	for fn := range ssautil.AllFunctions(prog) {
		w.Funcs[funcKey(fn)] = fn
	}
	return w, nil
}

func (w *World) Close() {
	if w.tmpdir != "" {
		os.RemoveAll(w.tmpdir)
	}
}

// funcKey gives the stable name used in contract files and obligation names:
// pkgpath.Func, pkgpath.(*T).Method, pkgpath.(T).Method, pkgpath.Outer$1.
func funcKey(fn *ssa.Function) string {
	if fn == nil {
		return "<nil>"
	}
	if fn.Parent() != nil {
		return funcKey(fn.Parent()) + "$" + strings.TrimPrefix(fn.Name(), fn.Parent().Name()+"$")
	}
	pkg := ""
	if fn.Pkg != nil {
		pkg = fn.Pkg.Pkg.Path()
	} else if fn.Object() != nil && fn.Object().Pkg() != nil {
		pkg = fn.Object().Pkg().Path()
	}
	if recv := fn.Signature.Recv(); recv != nil {
		t := recv.Type()
		ptr := false
		if p, ok := t.(*types.Pointer); ok {
			ptr = true
			t = p.Elem()
		}
		name := typeShortName(t)
		if ptr {
			return fmt.Sprintf("%s.(*%s).%s", pkg, name, fn.Name())
		}
		return fmt.Sprintf("%s.(%s).%s", pkg, name, fn.Name())
	}
	return pkg + "." + fn.Name()
}

func typeShortName(t types.Type) string {
	switch t := t.(type) {
	case *types.Named:
		return t.Obj().Name()
	case *types.Alias:
		return t.Obj().Name()
	}
	return t.String()
}

// lookupFunc resolves a contract target written relative to package path pkg.
func (w *World) lookupFunc(pkg, target string) *ssa.Function {
	if f, ok := w.Funcs[pkg+"."+target]; ok {
		return f
	}
	if f, ok := w.Funcs[target]; ok {
		return f
	}
	return nil
}

func (w *World) pos(p token.Pos) string {
	if !p.IsValid() || w.Fset == nil {
		return "-"
	}
	q := w.Fset.Position(p)
	rel, err := filepath.Rel(repoDir, q.Filename)
	if err != nil {
		rel = q.Filename
	}
	return fmt.Sprintf("%s:%d", rel, q.Line)
}

func sortedKeys[V any](m map[string]V) []string {
	ks := make([]string, 0, len(m))
	for k := range m {
		ks = append(ks, k)
	}
	sort.Strings(ks)
	return ks
}
