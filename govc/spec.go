package main

import (
	"fmt"
	"os"
	"path/filepath"
	"regexp"
	"strconv"
	"strings"
	"unicode"
)

// ---------------------------------------------------------------- AST

type Expr interface{}

type EIdent struct{ Name string }
type EInt struct{ V string }
type EFloat struct{ V string }
type EStr struct{ V string }
type EBool struct{ V bool }
type ENil struct{}
type EBin struct {
	Op   string
	L, R Expr
}
type EUn struct {
	Op string
	X  Expr
}
type ECall struct {
	Fn   string
	Args []Expr
}
type ESel struct {
	X    Expr
	Name string
}
type EIndex struct{ X, I Expr }
type ESlice struct{ X, Lo, Hi Expr }
type QVar struct{ Name, Type string }
type EQuant struct {
	Forall bool
	Vars   []QVar
	Body   Expr
}

func exprString(e Expr) string {
	switch e := e.(type) {
	case EIdent:
		return e.Name
	case EInt:
		return e.V
	case EFloat:
		return e.V
	case EStr:
		return strconv.Quote(e.V)
	case EBool:
		return fmt.Sprint(e.V)
	case ENil:
		return "nil"
	case EBin:
		return "(" + exprString(e.L) + " " + e.Op + " " + exprString(e.R) + ")"
	case EUn:
		return e.Op + exprString(e.X)
	case ECall:
		as := []string{}
		for _, a := range e.Args {
			as = append(as, exprString(a))
		}
		return e.Fn + "(" + strings.Join(as, ", ") + ")"
	case ESel:
		return exprString(e.X) + "." + e.Name
	case EIndex:
		return exprString(e.X) + "[" + exprString(e.I) + "]"
	case ESlice:
		lo, hi := "", ""
		if e.Lo != nil {
			lo = exprString(e.Lo)
		}
		if e.Hi != nil {
			hi = exprString(e.Hi)
		}
		return exprString(e.X) + "[" + lo + ":" + hi + "]"
	case EQuant:
		q := "exists"
		if e.Forall {
			q = "forall"
		}
		vs := []string{}
		for _, v := range e.Vars {
			vs = append(vs, v.Name+" "+v.Type)
		}
		return "(" + q + " " + strings.Join(vs, ", ") + " :: " + exprString(e.Body) + ")"
	}
	return fmt.Sprintf("%#v", e)
}

// ---------------------------------------------------------------- lexer

type tok struct {
	k string // "id","int","float","str","op","eof"
	s string
}

func lexSpec(src string) ([]tok, error) {
	var out []tok
	i := 0
	for i < len(src) {
		c := src[i]
		switch {
		case c == ' ' || c == '\t' || c == '\n' || c == '\r':
			i++
		case unicode.IsLetter(rune(c)) || c == '_':
			j := i
			for j < len(src) && (unicode.IsLetter(rune(src[j])) || unicode.IsDigit(rune(src[j])) || src[j] == '_' || src[j] == '$') {
				j++
			}
			out = append(out, tok{"id", src[i:j]})
			i = j
		case unicode.IsDigit(rune(c)):
			j := i
			isf := false
			if strings.HasPrefix(src[i:], "0x") {
				j = i + 2
				for j < len(src) && strings.ContainsRune("0123456789abcdefABCDEF", rune(src[j])) {
					j++
				}
			} else {
				for j < len(src) && (unicode.IsDigit(rune(src[j])) || (src[j] == '.' && j+1 < len(src) && unicode.IsDigit(rune(src[j+1])))) {
					if src[j] == '.' {
						isf = true
					}
					j++
				}
				// exponent
				if j < len(src) && (src[j] == 'e' || src[j] == 'E') {
					k := j + 1
					if k < len(src) && (src[k] == '-' || src[k] == '+') {
						k++
					}
					if k < len(src) && unicode.IsDigit(rune(src[k])) {
						for k < len(src) && unicode.IsDigit(rune(src[k])) {
							k++
						}
						j = k
						isf = true
					}
				}
			}
			if isf {
				out = append(out, tok{"float", src[i:j]})
			} else {
				out = append(out, tok{"int", src[i:j]})
			}
			i = j
		case c == '"':
			j := i + 1
			for j < len(src) && src[j] != '"' {
				if src[j] == '\\' {
					j++
				}
				j++
			}
			if j >= len(src) {
				return nil, fmt.Errorf("unterminated string in %q", src)
			}
			s, err := strconv.Unquote(src[i : j+1])
			if err != nil {
				return nil, fmt.Errorf("bad string %s: %v", src[i:j+1], err)
			}
			out = append(out, tok{"str", s})
			i = j + 1
		case c == '\'':
			j := i + 1
			for j < len(src) && src[j] != '\'' {
				if src[j] == '\\' {
					j++
				}
				j++
			}
			r, _, _, err := strconv.UnquoteChar(src[i+1:j], '\'')
			if err != nil {
				return nil, fmt.Errorf("bad rune literal in %q", src)
			}
			out = append(out, tok{"int", strconv.Itoa(int(r))})
			i = j + 1
		default:
			ops := []string{"<==>", "==>", "::", "&&", "||", "==", "!=", "<=", ">=", "<<", "(", ")", "[", "]", ",", ".", ":", "+", "-", "*", "/", "%", "<", ">", "!", "?", "{", "}", "&"}
			found := false
			for _, op := range ops {
				if strings.HasPrefix(src[i:], op) {
					out = append(out, tok{"op", op})
					i += len(op)
					found = true
					break
				}
			}
			if !found {
				return nil, fmt.Errorf("unexpected character %q in %q", c, src)
			}
		}
	}
	out = append(out, tok{"eof", ""})
	return out, nil
}

// ---------------------------------------------------------------- parser

type parser struct {
	toks []tok
	p    int
	src  string
}

func (p *parser) peek() tok { return p.toks[p.p] }
func (p *parser) next() tok { t := p.toks[p.p]; p.p++; return t }
func (p *parser) isOp(s string) bool {
	t := p.peek()
	return t.k == "op" && t.s == s
}
func (p *parser) isID(s string) bool {
	t := p.peek()
	return t.k == "id" && t.s == s
}
func (p *parser) expect(s string) error {
	if !p.isOp(s) {
		return fmt.Errorf("expected %q at token %d (%q) in %q", s, p.p, p.peek().s, p.src)
	}
	p.p++
	return nil
}

func parseExpr(src string) (Expr, error) {
	toks, err := lexSpec(src)
	if err != nil {
		return nil, err
	}
	p := &parser{toks: toks, src: src}
	e, err := p.parseTop()
	if err != nil {
		return nil, err
	}
	if p.peek().k != "eof" {
		return nil, fmt.Errorf("trailing tokens at %q in %q", p.peek().s, src)
	}
	return e, nil
}

func (p *parser) parseTop() (Expr, error) {
	if p.isID("forall") || p.isID("exists") {
		return p.parseQuant()
	}
	return p.parseIff()
}

func (p *parser) parseQuant() (Expr, error) {
	q := p.next().s
	var vars []QVar
	for {
		if p.peek().k != "id" {
			return nil, fmt.Errorf("expected bound variable in %q", p.src)
		}
		name := p.next().s
		ty := ""
		for !p.isOp(",") && !p.isOp("::") && p.peek().k != "eof" {
			ty += p.next().s
		}
		if ty == "" {
			ty = "int"
		}
		vars = append(vars, QVar{name, ty})
		if p.isOp(",") {
			p.next()
			continue
		}
		break
	}
	if err := p.expect("::"); err != nil {
		return nil, err
	}
	body, err := p.parseTop()
	if err != nil {
		return nil, err
	}
	return EQuant{Forall: q == "forall", Vars: vars, Body: body}, nil
}

func (p *parser) parseIff() (Expr, error) {
	l, err := p.parseImp()
	if err != nil {
		return nil, err
	}
	for p.isOp("<==>") {
		p.next()
		r, err := p.parseImp()
		if err != nil {
			return nil, err
		}
		l = EBin{"<==>", l, r}
	}
	return l, nil
}

func (p *parser) parseImp() (Expr, error) {
	l, err := p.parseOr()
	if err != nil {
		return nil, err
	}
	if p.isOp("==>") {
		p.next()
		var r Expr
		if p.isID("forall") || p.isID("exists") {
			r, err = p.parseQuant()
		} else {
			r, err = p.parseImp()
		}
		if err != nil {
			return nil, err
		}
		return EBin{"==>", l, r}, nil
	}
	return l, nil
}

func (p *parser) parseOr() (Expr, error) {
	l, err := p.parseAnd()
	if err != nil {
		return nil, err
	}
	for p.isOp("||") {
		p.next()
		r, err := p.parseAnd()
		if err != nil {
			return nil, err
		}
		l = EBin{"||", l, r}
	}
	return l, nil
}

func (p *parser) parseAnd() (Expr, error) {
	l, err := p.parseCmp()
	if err != nil {
		return nil, err
	}
	for p.isOp("&&") {
		p.next()
		var r Expr
		if p.isID("forall") || p.isID("exists") {
			r, err = p.parseQuant()
		} else {
			r, err = p.parseCmp()
		}
		if err != nil {
			return nil, err
		}
		l = EBin{"&&", l, r}
	}
	return l, nil
}

func (p *parser) parseCmp() (Expr, error) {
	l, err := p.parseAdd()
	if err != nil {
		return nil, err
	}
	// chained comparisons a <= b < c mean a <= b && b < c
	var res Expr
	for {
		t := p.peek()
		op := ""
		if t.k == "op" && (t.s == "==" || t.s == "!=" || t.s == "<" || t.s == "<=" || t.s == ">" || t.s == ">=") {
			op = t.s
		} else if t.k == "id" && t.s == "in" {
			op = "in"
		}
		if op == "" {
			break
		}
		p.next()
		r, err := p.parseAdd()
		if err != nil {
			return nil, err
		}
		c := EBin{op, l, r}
		if res == nil {
			res = c
		} else {
			res = EBin{"&&", res, c}
		}
		l = r
	}
	if res != nil {
		return res, nil
	}
	return l, nil
}

func (p *parser) parseAdd() (Expr, error) {
	l, err := p.parseMul()
	if err != nil {
		return nil, err
	}
	for p.isOp("+") || p.isOp("-") {
		op := p.next().s
		r, err := p.parseMul()
		if err != nil {
			return nil, err
		}
		l = EBin{op, l, r}
	}
	return l, nil
}

func (p *parser) parseMul() (Expr, error) {
	l, err := p.parseUnary()
	if err != nil {
		return nil, err
	}
	for p.isOp("*") || p.isOp("/") || p.isOp("%") || p.isOp("<<") {
		op := p.next().s
		r, err := p.parseUnary()
		if err != nil {
			return nil, err
		}
		l = EBin{op, l, r}
	}
	return l, nil
}

func (p *parser) parseUnary() (Expr, error) {
	if p.isOp("!") || p.isOp("-") || p.isOp("*") || p.isOp("&") {
		op := p.next().s
		x, err := p.parseUnary()
		if err != nil {
			return nil, err
		}
		return EUn{op, x}, nil
	}
	return p.parsePostfix()
}

func (p *parser) parsePostfix() (Expr, error) {
	x, err := p.parsePrimary()
	if err != nil {
		return nil, err
	}
	for {
		switch {
		case p.isOp("."):
			p.next()
			if p.peek().k != "id" {
				return nil, fmt.Errorf("expected field name in %q", p.src)
			}
			x = ESel{x, p.next().s}
		case p.isOp("["):
			p.next()
			var lo Expr
			if !p.isOp(":") {
				lo, err = p.parseTop()
				if err != nil {
					return nil, err
				}
			}
			if p.isOp(":") {
				p.next()
				var hi Expr
				if !p.isOp("]") {
					hi, err = p.parseTop()
					if err != nil {
						return nil, err
					}
				}
				if err := p.expect("]"); err != nil {
					return nil, err
				}
				x = ESlice{x, lo, hi}
			} else {
				if err := p.expect("]"); err != nil {
					return nil, err
				}
				x = EIndex{x, lo}
			}
		default:
			return x, nil
		}
	}
}

func (p *parser) parsePrimary() (Expr, error) {
	t := p.next()
	switch t.k {
	case "int":
		return EInt{t.s}, nil
	case "float":
		return EFloat{t.s}, nil
	case "str":
		return EStr{t.s}, nil
	case "id":
		switch t.s {
		case "true":
			return EBool{true}, nil
		case "false":
			return EBool{false}, nil
		case "nil":
			return ENil{}, nil
		}
		if p.isOp("(") {
			p.next()
			var args []Expr
			for !p.isOp(")") {
				a, err := p.parseTop()
				if err != nil {
					return nil, err
				}
				args = append(args, a)
				if p.isOp(",") {
					p.next()
				} else {
					break
				}
			}
			if err := p.expect(")"); err != nil {
				return nil, err
			}
			return ECall{t.s, args}, nil
		}
		return EIdent{t.s}, nil
	case "op":
		if t.s == "(" {
			e, err := p.parseTop()
			if err != nil {
				return nil, err
			}
			if err := p.expect(")"); err != nil {
				return nil, err
			}
			return e, nil
		}
	}
	return nil, fmt.Errorf("unexpected token %q in %q", t.s, p.src)
}

// ---------------------------------------------------------------- contracts

type Clause struct {
	Group string // [#g]: the clause belongs to group g (its facts are only used for obligations of group g)
	OnlyProps []string // when set: obligations of this clause are generated only for these properties
	Kind string // requires ensures modifies invariant decreases
	Loop int
	Src  string
	E    Expr   // for requires/ensures/invariant/decreases
	Locs []Expr // for modifies
	Line string // file:line
	Name string // optional label
	When Expr   // modifies ... when cond
	Pkg  string // package of the contract file the clause was written in
}

type FuncSpec struct {
	Target   string
	Pkg      string
	Requires []*Clause
	Ensures  []*Clause
	Modifies []*Clause // nil = no clause (unknown); present with zero Locs = nothing
	HasMod   bool
	Loops    map[int][]*Clause
	LoopMods map[int][]*Clause
	Inline   bool
	Pure     bool // extern: writes nothing, result is a function of arguments only if declared `function`
	Function bool
	FunctionAs string // name of the uninterpreted spec function that stands for the result // result is an uninterpreted function of the arguments
	Arith    string
	Props    []string
	Writes   []string // extern: heap names written; "ALL" allowed
	NoPanic  bool
	Trusted  bool // contract is assumed, body not verified
	Allocs   bool
	Ghosts   []GhostDecl
	Line     string
	Lock     []string
	Extern   bool
	Skip     map[string]bool // obligation kinds not generated for this function (stated)
	Unroll   map[int]int
	Uses     []string
	FilePkg  string // package of the contract file the spec was written in
	Access    []AccessRule   // lock discipline: conditions on accesses to a struct field
	CallReqs  map[string][]*Clause // extra preconditions at calls of a named callee
	AfterWait []*Clause      // fork/join: assumed after sync.WaitGroup.Wait returns
	GhostInits []GhostInit
	GhostSets  []GhostSet
	Holds       []HoldClause // goroutine: thread-local ghost permissions it starts with (transferred from the spawner)
	CloseGuards [][2]string  // `closeguard ch wg`: channel variable ch is closed only after wg.Wait()
	NeverClosed []string     // `neverclosed ch`: channel variable ch is never closed
	NonBlocking []string     // `nonblocking ch`: every send on channel variable ch finds a free buffer slot
	OnSend     []*Clause // obligations at every channel send of the function (`value` is what is sent)
	Preserves []*Clause // closure contracts: requires + ensures + carried across extern calls that take the closure as a callback
	Chooses   []ChooseClause // witnesses of existential postconditions of callees
	Assumes2  []*Clause      // `assumes`: taken for granted at entry, NOT checked at call sites (listed in the evidence)
	Guarantees []*Clause     // goroutine: holds whenever it releases a lock and when it ends; spawner may assume it
	GoReqs    bool
	GhostParams []QVar                      // logical variables of the contract, bound by callers with `callghost`
	CallGhost   map[string]map[string]Expr // callee short name -> ghost parameter -> expression in the caller
	Claims   []*Clause // for `prove` blocks: stand-alone lemmas to be proved
	Assumes  []*Clause // hypotheses of a `prove` block
}

// HoldClause: `holds wgtok(<expr>) <n>` | `holds wgst(<expr>) 2` | `holds mayclose(<expr>) 1`
type HoldClause struct {
	Fn        string
	E         Expr
	N         int
	Src, Line string
}

// GhostInit: `ghostinit <specfn> <local> = <expr> after <callee>` fixes the
// value of the uninterpreted ghost function specfn at the address of a local
// variable of the function (a lock's ghost argument), once.
type GhostInit struct {
	Fn, Local, Callee string
	E                 Expr
	Src, Line         string
}

// GhostSet: `ghostset <ghostvar> = <expr> after <callee>`: ghost assignment in
// the function under verification right after each call of callee; expr may
// mention the call's results (result, result0, ...).
type GhostSet struct {
	OnStore     string // instead of Callee: after every store to this local variable ...
	InLoop      int    // ... inside this loop (0 = anywhere); expr may use `value` and `oldvalue`
	Var, Callee string
	E           Expr
	Src, Line   string
}

type ChooseClause struct {
	Name, Type, Callee string
	E                  Expr
	Src, Line          string
}

type AccessRule struct {
	Type, Field string
	Write       bool
	Cond        Expr
	Src         string
	Line        string
}

type GhostDecl struct {
	Name, Type, Init string
}

type SpecFn struct {
	Reads  []string // heaps an uninterpreted spec function depends on: "E:<elemtype>" or "H:<Type>.<field>"
	Name   string
	Params []QVar
	Ret    string
	Body   Expr
	Line   string
	Pkg    string
}

type Lemma struct {
	Name string
	E    Expr
	Src  string
	Line string
	Pkg  string
}

type TypeInv struct {
	Pkg, Type string
	E         Expr
	Src       string
	Line      string
}

type SpecSet struct {
	Funcs    map[string]*FuncSpec // key: pkgpath.target
	SpecFns  map[string]*SpecFn
	Lemmas   []*Lemma
	TypeInvs []*TypeInv
	Globals  []*Lemma
	Files    []string
	GhostVars map[string]GhostDecl
	LockInvs  map[string]string // "<pkg>.<Type>.<field>" -> spec function over *Type
	LockProt  map[string][]Expr // same keys -> locations protected by the lock (forgotten on acquisition)
	LockRely  map[string]Expr   // same keys -> two-state relation every critical section maintains on the protected locations
}

func newSpecSet() *SpecSet {
	return &SpecSet{Funcs: map[string]*FuncSpec{}, SpecFns: map[string]*SpecFn{}, GhostVars: map[string]GhostDecl{}, LockInvs: map[string]string{}, LockProt: map[string][]Expr{}, LockRely: map[string]Expr{}}
}

var clauseKeywords = map[string]bool{"func": true, "requires": true, "ensures": true, "modifies": true,
	"loop": true, "inline": true, "props": true, "arith": true, "pure": true, "function": true, "writes": true,
	"type": true, "spec": true, "lemma": true, "global": true, "trusted": true, "ghost": true, "allocs": true,
	"skip": true, "end": true, "uses": true, "ghostvar": true, "prove": true, "claim": true, "given": true, "ghostparam": true, "callghost": true, "access": true, "callreq": true, "afterwait": true, "lockinv": true, "guarantee": true, "assumes": true, "choose": true, "ghostinit": true, "preserves": true, "ghostset": true, "onsend": true, "holds": true, "closeguard": true, "neverclosed": true, "nonblocking": true}

// specLines extracts the //@ payload lines of a Go file, or all lines of a
// .spec file.
func specLines(path string) ([]string, []int, error) {
	b, err := os.ReadFile(path)
	if err != nil {
		return nil, nil, err
	}
	var out []string
	var nums []int
	isGo := strings.HasSuffix(path, ".go")
	for i, ln := range strings.Split(string(b), "\n") {
		s := strings.TrimSpace(ln)
		if isGo {
			if strings.HasPrefix(s, "//@") {
				s = s[3:]
			} else if strings.HasPrefix(s, "// @") {
				s = s[4:]
			} else {
				continue
			}
		}
		// strip trailing comment
		if k := strings.Index(s, " //"); k >= 0 && !strings.Contains(s[:k], "\"") {
			s = s[:k]
		} else if strings.HasPrefix(strings.TrimSpace(s), "//") || strings.HasPrefix(strings.TrimSpace(s), "#") {
			s = ""
		}
		s = strings.TrimSpace(s)
		if s == "" {
			continue
		}
		out = append(out, s)
		nums = append(nums, i+1)
	}
	return out, nums, nil
}

func (ss *SpecSet) parseFile(path, pkg string) error {
	lines, nums, err := specLines(path)
	if err != nil {
		return err
	}
	ss.Files = append(ss.Files, path)
	// join continuation lines
	type item struct {
		text string
		line int
	}
	var items []item
	for i, ln := range lines {
		first := ln
		if k := strings.IndexAny(ln, " \t("); k >= 0 {
			first = ln[:k]
		}
		if clauseKeywords[first] || len(items) == 0 {
			items = append(items, item{ln, nums[i]})
		} else {
			items[len(items)-1].text += " " + ln
		}
	}
	var cur *FuncSpec
	rel := path
	if r, err := filepath.Rel(repoDir, path); err == nil && !strings.HasPrefix(r, "..") {
		rel = r
	} else if r, err := filepath.Rel("/verif", path); err == nil && !strings.HasPrefix(r, "..") {
		rel = "verif/" + r
	}
	for _, it := range items {
		where := fmt.Sprintf("%s:%d", rel, it.line)
		kw, rest := it.text, ""
		if k := strings.IndexAny(it.text, " \t"); k >= 0 {
			kw, rest = it.text[:k], strings.TrimSpace(it.text[k+1:])
		}
		fail := func(err error) error { return fmt.Errorf("%s: %v", where, err) }
		switch kw {
		case "func":
			p := pkg
			target := rest
			// external functions: `func extern sort.Sort` (or a path with '/')
			if strings.HasPrefix(rest, "extern ") {
				target = strings.TrimSpace(strings.TrimPrefix(rest, "extern "))
				p = ""
			}
			if strings.Contains(target, "/") || (pkg == "" && strings.Contains(target, ".")) {
				p = ""
			}
			cur = &FuncSpec{Target: target, Pkg: p, FilePkg: pkg, Loops: map[int][]*Clause{}, LoopMods: map[int][]*Clause{}, Line: where, Skip: map[string]bool{}, Unroll: map[int]int{}}
			key := target
			if p != "" {
				key = p + "." + target
			}
			if old, dup := ss.Funcs[key]; dup {
				// assumed contracts of external functions may be extended by
				// several contract files (clauses are added)
				if p != "" {
					return fail(fmt.Errorf("duplicate contract for %s", key))
				}
				cur = old
			} else {
				ss.Funcs[key] = cur
			}
		case "requires", "ensures":
			if cur == nil {
				return fail(fmt.Errorf("clause outside func block"))
			}
			name := ""
			group := ""
			var only []string
			if strings.HasPrefix(rest, "[") {
				if k := strings.Index(rest, "]"); k > 0 {
					name = rest[1:k]
					rest = strings.TrimSpace(rest[k+1:])
					// [label @C06,C07]: the clause belongs to these properties only
					if a := strings.Index(name, "@"); a >= 0 {
						only = strings.Split(strings.TrimSpace(name[a+1:]), ",")
						name = strings.TrimSpace(name[:a])
					}
					// [#g] or [label #g]: clause group
					if a := strings.Index(name, "#"); a >= 0 {
						group = strings.TrimSpace(name[a+1:])
						name = strings.TrimSpace(name[:a])
					}
				}
			}
			e, err := parseExpr(rest)
			if err != nil {
				return fail(err)
			}
			c := &Clause{Kind: kw, Src: rest, E: e, Line: where, Name: name, Pkg: pkg, OnlyProps: only, Group: group}
			if kw == "requires" {
				cur.Requires = append(cur.Requires, c)
			} else {
				cur.Ensures = append(cur.Ensures, c)
			}
		case "modifies":
			if cur == nil {
				return fail(fmt.Errorf("clause outside func block"))
			}
			cur.HasMod = true
			c := &Clause{Kind: kw, Src: rest, Line: where, Pkg: pkg}
			if k := strings.Index(rest, " when "); k >= 0 {
				w, err := parseExpr(rest[k+6:])
				if err != nil {
					return fail(err)
				}
				c.When = w
				rest = strings.TrimSpace(rest[:k])
			}
			if rest != "nothing" {
				for _, part := range splitTop(rest) {
					e, err := parseExpr(part)
					if err != nil {
						return fail(err)
					}
					c.Locs = append(c.Locs, e)
				}
			}
			cur.Modifies = append(cur.Modifies, c)
		case "loop":
			if cur == nil {
				return fail(fmt.Errorf("clause outside func block"))
			}
			f := strings.Fields(rest)
			if len(f) < 2 {
				return fail(fmt.Errorf("bad loop clause"))
			}
			n, err := strconv.Atoi(f[0])
			if err != nil {
				return fail(err)
			}
			body := strings.TrimSpace(strings.TrimPrefix(strings.TrimSpace(strings.TrimPrefix(rest, f[0])), f[1]))
			if f[1] == "unroll" {
				k, err := strconv.Atoi(body)
				if err != nil {
					return fail(err)
				}
				cur.Unroll[n] = k
				continue
			}
			if f[1] == "modifies" {
				c := &Clause{Kind: "modifies", Loop: n, Src: body, Line: where}
				if body != "nothing" {
					for _, part := range splitTop(body) {
						e, err := parseExpr(part)
						if err != nil {
							return fail(err)
						}
						c.Locs = append(c.Locs, e)
					}
				}
				cur.LoopMods[n] = append(cur.LoopMods[n], c)
				continue
			}
			if f[1] != "invariant" && f[1] != "decreases" && f[1] != "exit" {
				return fail(fmt.Errorf("bad loop clause kind %s", f[1]))
			}
			lgroup := ""
			if strings.HasPrefix(body, "[#") {
				if k := strings.Index(body, "]"); k > 0 {
					lgroup = strings.TrimSpace(body[2:k])
					body = strings.TrimSpace(body[k+1:])
				}
			}
			e, err := parseExpr(body)
			if err != nil {
				return fail(err)
			}
			cur.Loops[n] = append(cur.Loops[n], &Clause{Kind: f[1], Loop: n, Src: body, E: e, Line: where, Group: lgroup})
		case "inline":
			cur.Inline = true
		case "pure":
			cur.Pure = true
		case "function":
			cur.Pure = true
			cur.Function = true
			cur.FunctionAs = strings.TrimSpace(rest)
		case "trusted":
			cur.Trusted = true
		case "allocs":
			cur.Allocs = true
		case "arith":
			cur.Arith = rest
		case "props":
			cur.Props = strings.Fields(rest)
		case "writes":
			cur.Writes = append(cur.Writes, strings.Fields(rest)...)
		case "uses":
			cur.Uses = append(cur.Uses, strings.Fields(rest)...)
		case "skip":
			for _, k := range strings.Fields(rest) {
				cur.Skip[k] = true
			}
		case "ghost":
			f := strings.Fields(rest)
			if len(f) < 2 {
				return fail(fmt.Errorf("bad ghost decl"))
			}
			g := GhostDecl{Name: f[0], Type: f[1]}
			if k := strings.Index(rest, "="); k >= 0 {
				g.Init = strings.TrimSpace(rest[k+1:])
			}
			cur.Ghosts = append(cur.Ghosts, g)
		case "type":
			f := strings.Fields(rest)
			if len(f) < 3 || f[1] != "invariant" {
				return fail(fmt.Errorf("bad type invariant"))
			}
			body := strings.TrimSpace(strings.TrimPrefix(strings.TrimSpace(strings.TrimPrefix(rest, f[0])), "invariant"))
			e, err := parseExpr(body)
			if err != nil {
				return fail(err)
			}
			ss.TypeInvs = append(ss.TypeInvs, &TypeInv{Pkg: pkg, Type: f[0], E: e, Src: body, Line: where})
			cur = nil
		case "spec":
			// spec name(a int, b string) int [= expr]
			open := strings.Index(rest, "(")
			close := matchParen(rest, open)
			if open < 0 || close < 0 {
				return fail(fmt.Errorf("bad spec decl"))
			}
			sf := &SpecFn{Name: strings.TrimSpace(rest[:open]), Line: where, Pkg: pkg}
			for _, p := range splitTop(rest[open+1 : close]) {
				f := strings.Fields(p)
				if len(f) != 2 {
					return fail(fmt.Errorf("bad spec param %q", p))
				}
				sf.Params = append(sf.Params, QVar{f[0], f[1]})
			}
			tail := strings.TrimSpace(rest[close+1:])
			if k := strings.Index(tail, " reads "); k >= 0 {
				for _, it := range strings.Split(tail[k+7:], ",") {
					sf.Reads = append(sf.Reads, strings.TrimSpace(it))
				}
				tail = strings.TrimSpace(tail[:k])
			}
			if k := strings.Index(tail, "="); k >= 0 {
				sf.Ret = strings.TrimSpace(tail[:k])
				e, err := parseExpr(tail[k+1:])
				if err != nil {
					return fail(err)
				}
				sf.Body = e
			} else {
				sf.Ret = tail
			}
			ss.SpecFns[sf.Name] = sf
			cur = nil
		case "lemma", "global":
			k := strings.Index(rest, ":")
			if k < 0 {
				return fail(fmt.Errorf("lemma needs name: expr"))
			}
			e, err := parseExpr(rest[k+1:])
			if err != nil {
				return fail(err)
			}
			l := &Lemma{Name: strings.TrimSpace(rest[:k]), E: e, Src: strings.TrimSpace(rest[k+1:]), Line: where, Pkg: pkg}
			if kw == "lemma" {
				ss.Lemmas = append(ss.Lemmas, l)
			} else {
				ss.Globals = append(ss.Globals, l)
			}
			cur = nil
		case "prove":
			name := strings.TrimSpace(rest)
			cur = &FuncSpec{Target: "prove " + name, Pkg: pkg, FilePkg: pkg, Loops: map[int][]*Clause{}, LoopMods: map[int][]*Clause{}, Line: where, Skip: map[string]bool{}, Unroll: map[int]int{}}
			ss.Funcs[pkg+".prove "+name] = cur
		case "claim", "given":
			if cur == nil {
				return fail(fmt.Errorf("clause outside block"))
			}
			e, err := parseExpr(rest)
			if err != nil {
				return fail(err)
			}
			c := &Clause{Kind: kw, Src: rest, E: e, Line: where}
			if kw == "claim" {
				cur.Claims = append(cur.Claims, c)
			} else {
				cur.Assumes = append(cur.Assumes, c)
			}
		case "access":
			// access <Type>.<field> read|write requires <expr>
			f := strings.Fields(rest)
			k := strings.Index(rest, " requires ")
			if cur == nil || len(f) < 4 || k < 0 || !strings.Contains(f[0], ".") || (f[1] != "read" && f[1] != "write") {
				return fail(fmt.Errorf("access <Type>.<field> read|write requires <expr>"))
			}
			e, err := parseExpr(rest[k+10:])
			if err != nil {
				return fail(err)
			}
			// the type may be qualified by its package (pkg.Type.field)
			li := strings.LastIndex(f[0], ".")
			tf := []string{f[0][:li], f[0][li+1:]}
			if k := strings.LastIndex(tf[0], "."); k >= 0 {
				tf[0] = tf[0][k+1:]
			}
			cur.Access = append(cur.Access, AccessRule{Type: tf[0], Field: tf[1], Write: f[1] == "write", Cond: e, Src: rest, Line: where})
		case "callreq":
			f := strings.Fields(rest)
			k := strings.Index(rest, " requires ")
			if cur == nil || len(f) < 3 || k < 0 {
				return fail(fmt.Errorf("callreq <callee> requires <expr>"))
			}
			e, err := parseExpr(rest[k+10:])
			if err != nil {
				return fail(err)
			}
			if cur.CallReqs == nil {
				cur.CallReqs = map[string][]*Clause{}
			}
			cur.CallReqs[f[0]] = append(cur.CallReqs[f[0]], &Clause{Kind: "callreq", Src: rest[k+10:], E: e, Line: where})
		case "onsend":
			if cur == nil || !strings.HasPrefix(rest, "requires ") {
				return fail(fmt.Errorf("onsend requires <expr>"))
			}
			{
				e, err := parseExpr(rest[9:])
				if err != nil {
					return fail(err)
				}
				cur.OnSend = append(cur.OnSend, &Clause{Kind: "onsend", Src: rest[9:], E: e, Line: where})
			}
		case "holds":
			{
				// holds wgtok(<expr>) <n>
				m := regexp.MustCompile(`^(wgtok|wgst|mayclose|chcredit)\((.*)\)\s+([0-9]+)$`).FindStringSubmatch(strings.TrimSpace(rest))
				if m == nil {
					return fail(fmt.Errorf("holds wgtok|wgst|mayclose(<expr>) <n>"))
				}
				ex, err := parseExpr(m[2])
				if err != nil {
					return fail(err)
				}
				n, _ := strconv.Atoi(m[3])
				cur.Holds = append(cur.Holds, HoldClause{Fn: m[1], E: ex, N: n, Src: strings.TrimSpace(rest), Line: where})
			}
		case "closeguard":
			{
				f := strings.Fields(rest)
				if len(f) != 2 {
					return fail(fmt.Errorf("closeguard <channel variable> <WaitGroup variable>"))
				}
				cur.CloseGuards = append(cur.CloseGuards, [2]string{f[0], f[1]})
			}
		case "nonblocking":
			{
				f := strings.Fields(rest)
				if len(f) != 1 {
					return fail(fmt.Errorf("nonblocking <channel variable>"))
				}
				cur.NonBlocking = append(cur.NonBlocking, f[0])
			}
		case "neverclosed":
			{
				f := strings.Fields(rest)
				if len(f) != 1 {
					return fail(fmt.Errorf("neverclosed <channel variable>"))
				}
				cur.NeverClosed = append(cur.NeverClosed, f[0])
			}
		case "ghostset":
			{
				f := strings.Fields(rest)
				k := strings.Index(rest, " = ")
				if cur != nil && k >= 0 && len(f) >= 4 && f[1] == "=" && strings.HasSuffix(strings.TrimSpace(rest), " onsend") {
					body := strings.TrimSuffix(strings.TrimSpace(rest), " onsend")
					e, err := parseExpr(body[k+3:])
					if err != nil {
						return fail(err)
					}
					cur.GhostSets = append(cur.GhostSets, GhostSet{Var: f[0], OnStore: "@send", E: e, Src: rest, Line: where})
					continue
				}
				if k3 := strings.LastIndex(rest, " onstore "); cur != nil && k3 > k && k >= 0 && len(f) >= 5 && f[1] == "=" {
					// ghostset <ghostvar> = <expr> onstore <var> [in loop <n>]
					tail := strings.Fields(rest[k3+9:])
					gs := GhostSet{Var: f[0], Src: rest, Line: where}
					if len(tail) == 2 && tail[0] == "field" {
						// ghostset <ghostvar> = <expr> onstore field <Type>.<field>
						gs.OnStore = "@field:" + tail[1]
					} else if len(tail) == 1 {
						gs.OnStore = tail[0]
					} else if len(tail) == 4 && tail[1] == "in" && tail[2] == "loop" {
						gs.OnStore = tail[0]
						n, err := strconv.Atoi(tail[3])
						if err != nil {
							return fail(err)
						}
						gs.InLoop = n
					} else {
						return fail(fmt.Errorf("ghostset <ghostvar> = <expr> onstore <var> [in loop <n>]"))
					}
					e, err := parseExpr(rest[k+3 : k3])
					if err != nil {
						return fail(err)
					}
					gs.E = e
					cur.GhostSets = append(cur.GhostSets, gs)
					continue
				}
				if cur != nil && k >= 0 && len(f) >= 4 && f[1] == "=" && strings.HasSuffix(strings.TrimSpace(rest), " atentry") {
					// ghostset <ghostvar> = <expr> atentry
					body := strings.TrimSuffix(strings.TrimSpace(rest), " atentry")
					e, err := parseExpr(body[k+3:])
					if err != nil {
						return fail(err)
					}
					cur.GhostSets = append(cur.GhostSets, GhostSet{Var: f[0], OnStore: "@entry", E: e, Src: rest, Line: where})
					continue
				}
				k2 := strings.LastIndex(rest, " after ")
				if cur == nil || len(f) < 5 || f[1] != "=" || k < 0 || k2 < k {
					return fail(fmt.Errorf("ghostset <ghostvar> = <expr> after <callee>"))
				}
				e, err := parseExpr(rest[k+3 : k2])
				if err != nil {
					return fail(err)
				}
				cur.GhostSets = append(cur.GhostSets, GhostSet{Var: f[0], Callee: strings.TrimSpace(rest[k2+7:]), E: e, Src: rest, Line: where})
			}
		case "ghostinit":
			// ghostinit <specfn> <local> = <expr> after <callee>
			f := strings.Fields(rest)
			k := strings.Index(rest, " = ")
			k2 := strings.LastIndex(rest, " after ")
			if cur == nil || len(f) < 6 || f[2] != "=" || k < 0 || k2 < k {
				return fail(fmt.Errorf("ghostinit <specfn> <local> = <expr> after <callee>"))
			}
			e, err := parseExpr(rest[k+3 : k2])
			if err != nil {
				return fail(err)
			}
			cur.GhostInits = append(cur.GhostInits, GhostInit{Fn: f[0], Local: f[1], Callee: strings.TrimSpace(rest[k2+7:]), E: e, Src: rest, Line: where})
		case "choose":
			// choose <name> <type> after <callee> suchthat <expr>
			f := strings.Fields(rest)
			k := strings.Index(rest, " suchthat ")
			if cur == nil || len(f) < 6 || f[2] != "after" || k < 0 {
				return fail(fmt.Errorf("choose <name> <type> after <callee> suchthat <expr>"))
			}
			e, err := parseExpr(rest[k+10:])
			if err != nil {
				return fail(err)
			}
			cur.Chooses = append(cur.Chooses, ChooseClause{Name: f[0], Type: f[1], Callee: f[3], E: e, Src: rest[k+10:], Line: where})
		case "preserves":
			if cur == nil {
				return fail(fmt.Errorf("clause outside func block"))
			}
			{
				e, err := parseExpr(rest)
				if err != nil {
					return fail(err)
				}
				c := &Clause{Kind: "preserves", Src: rest, E: e, Line: where}
				cur.Preserves = append(cur.Preserves, c)
				cur.Requires = append(cur.Requires, &Clause{Kind: "requires", Src: rest, E: e, Line: where})
				cur.Ensures = append(cur.Ensures, &Clause{Kind: "ensures", Src: rest, E: e, Line: where, Name: "preserves"})
			}
		case "assumes":
			if cur == nil {
				return fail(fmt.Errorf("clause outside func block"))
			}
			e, err := parseExpr(rest)
			if err != nil {
				return fail(err)
			}
			cur.Assumes2 = append(cur.Assumes2, &Clause{Kind: "assumes", Src: rest, E: e, Line: where})
		case "guarantee":
			if cur == nil {
				return fail(fmt.Errorf("clause outside func block"))
			}
			e, err := parseExpr(rest)
			if err != nil {
				return fail(err)
			}
			cur.Guarantees = append(cur.Guarantees, &Clause{Kind: "guarantee", Src: rest, E: e, Line: where})
		case "afterwait":
			if cur == nil {
				return fail(fmt.Errorf("clause outside func block"))
			}
			body := strings.TrimSpace(strings.TrimPrefix(rest, "assume"))
			e, err := parseExpr(body)
			if err != nil {
				return fail(err)
			}
			cur.AfterWait = append(cur.AfterWait, &Clause{Kind: "afterwait", Src: body, E: e, Line: where})
		case "lockinv":
			// lockinv <Type>.<mutexField> = <specfn>
			var prot []Expr
			var rely Expr
			if k := strings.Index(rest, " rely "); k >= 0 {
				re, err := parseExpr(rest[k+6:])
				if err != nil {
					return fail(err)
				}
				rely = re
				rest = strings.TrimSpace(rest[:k])
			}
			if k := strings.Index(rest, " protects "); k >= 0 {
				for _, part := range splitTop(rest[k+10:]) {
					pe, err := parseExpr(part)
					if err != nil {
						return fail(err)
					}
					prot = append(prot, pe)
				}
				rest = strings.TrimSpace(rest[:k])
			}
			f := strings.Fields(rest)
			if len(f) >= 4 && f[0] == "local" && f[2] == "=" {
				ss.LockProt[pkg+".local "+f[1]] = prot
				if rely != nil {
					return fail(fmt.Errorf("rely is not supported for local locks"))
				}
				// lockinv local <Func>.<var> = <expr over the function's variables>
				k := strings.Index(rest, "=")
				ss.LockInvs[pkg+".local "+f[1]] = strings.TrimSpace(rest[k+1:])
				cur = nil
				continue
			}
			if len(f) != 3 || f[1] != "=" || !strings.Contains(f[0], ".") {
				return fail(fmt.Errorf("lockinv <Type>.<field> = <specfn>"))
			}
			ss.LockInvs[pkg+"."+f[0]] = f[2]
			ss.LockProt[pkg+"."+f[0]] = prot
			if rely != nil {
				ss.LockRely[pkg+"."+f[0]] = rely
			}
			cur = nil
		case "ghostparam":
			f := strings.Fields(rest)
			if cur == nil || len(f) != 2 {
				return fail(fmt.Errorf("ghostparam needs name and type inside a func block"))
			}
			cur.GhostParams = append(cur.GhostParams, QVar{f[0], f[1]})
		case "callghost":
			// callghost <callee> <param> = <expr>
			f := strings.Fields(rest)
			k := strings.Index(rest, "=")
			if cur == nil || len(f) < 4 || k < 0 {
				return fail(fmt.Errorf("callghost <callee> <param> = <expr>"))
			}
			e, err := parseExpr(rest[k+1:])
			if err != nil {
				return fail(err)
			}
			if cur.CallGhost == nil {
				cur.CallGhost = map[string]map[string]Expr{}
			}
			if cur.CallGhost[f[0]] == nil {
				cur.CallGhost[f[0]] = map[string]Expr{}
			}
			cur.CallGhost[f[0]][f[1]] = e
		case "ghostvar":
			f := strings.Fields(rest)
			if len(f) != 2 {
				return fail(fmt.Errorf("ghostvar needs name and type"))
			}
			ss.GhostVars[f[0]] = GhostDecl{Name: f[0], Type: f[1], Init: pkg}
			cur = nil
		case "end":
			cur = nil
		default:
			return fail(fmt.Errorf("unknown keyword %q", kw))
		}
	}
	return nil
}

func matchParen(s string, open int) int {
	if open < 0 {
		return -1
	}
	d := 0
	for i := open; i < len(s); i++ {
		switch s[i] {
		case '(':
			d++
		case ')':
			d--
			if d == 0 {
				return i
			}
		}
	}
	return -1
}

// splitTop splits on commas not nested in parentheses/brackets.
func splitTop(s string) []string {
	var out []string
	d := 0
	last := 0
	for i, c := range s {
		switch c {
		case '(', '[', '{':
			d++
		case ')', ']', '}':
			d--
		case ',':
			if d == 0 {
				out = append(out, strings.TrimSpace(s[last:i]))
				last = i + 1
			}
		}
	}
	if strings.TrimSpace(s[last:]) != "" {
		out = append(out, strings.TrimSpace(s[last:]))
	}
	return out
}
