package main

import (
	"fmt"
	"go/types"
	"sort"
	"strings"

	"golang.org/x/tools/go/ssa"
)

// Val is a symbolic value: an SMT term, or an executor-side address, tuple or
// closure.
type Val struct {
	From  string // "<Type>.<field>" when the value was loaded from that field of a heap object
	FromOwner string // the object (ref term) it was loaded from
	Ghost bool // a total ghost map (SMT array), indexed directly
	T    string
	S    string
	Addr *Addr
	Tup  []Val
	Clo  *Closure
	GoT  types.Type
	Bad  string // non-empty: value could not be modelled (reason); any use havocs
}

type Closure struct {
	Fn       *ssa.Function
	Bindings []Val
}

const (
	aCell = iota
	aField
	aElem
	aSub
	aArr
	aBox
)

// Addr is an address that is not a plain object reference.
type Addr struct {
	Kind  int
	Cell  *ssa.Alloc
	Ref   string       // aField, aBox
	Owner types.Type   // aField: struct type owning the field
	Fld   int          // aField, aSub
	Sl    string       // aElem: slice term
	Idx   string       // aElem, aArr
	Base  *Addr        // aSub, aArr
	ElemT types.Type   // type of the pointee
}

// State is the symbolic store at a program point.
type State struct {
	id      int
	pc      string
	cells   map[*ssa.Alloc]Val
	heaps   map[string]string
	epoch   int
	nextRef string
	ghost   map[string]Val
	dead    bool
	snaps   map[string]*State // per held lock: the state right after its acquisition
}

func (s *State) clone() *State {
	n := &State{id: s.id, pc: s.pc, epoch: s.epoch, nextRef: s.nextRef, dead: s.dead,
		cells: make(map[*ssa.Alloc]Val, len(s.cells)), heaps: make(map[string]string, len(s.heaps)),
		ghost: make(map[string]Val, len(s.ghost))}
	for k, v := range s.cells {
		n.cells[k] = v
	}
	for k, v := range s.heaps {
		n.heaps[k] = v
	}
	for k, v := range s.ghost {
		n.ghost[k] = v
	}
	if len(s.snaps) > 0 {
		n.snaps = make(map[string]*State, len(s.snaps))
		for k, v := range s.snaps {
			n.snaps[k] = v
		}
	}
	return n
}

// fork returns a copy of st that is a new node of the state graph (its
// hypotheses will not be visible to obligations of sibling branches).
func (e *Exec) fork(st *State) *State {
	n := st.clone()
	e.stateSeq++
	n.id = e.stateSeq
	e.ctx.parents[n.id] = []int{st.id}
	return n
}

// ---------------------------------------------------------------- heap naming

func typeKey(t types.Type) string {
	return sanitize(types.TypeString(t, func(p *types.Package) string { return p.Name() }))
}

func fieldHeapName(owner types.Type, i int) string {
	st := owner.Underlying().(*types.Struct)
	key := typeKey(owner)
	if _, ok := owner.(*types.Named); !ok {
		key = fmt.Sprintf("anon%x", hashString(st.String()))
	}
	fname := sanitize(st.Field(i).Name())
	if fname == "_" {
		fname = fmt.Sprintf("_%d", i)
	}
	return "H$" + key + "$" + fname
}
func elemHeapName(elem types.Type) string { return "E$" + typeKey(elem) }
func boxHeapName(t types.Type) string     { return "B$" + typeKey(t) }
func mapHeapNames(m *types.Map) (md, mv string) {
	k := typeKey(m.Key()) + "$" + typeKey(m.Elem())
	return "MD$" + k, "MV$" + k
}

type heapInfo struct {
	sort    string
	valType types.Type // type of the stored values (nil for MD/MC)
	kind    byte       // 'H','E','B','D','V','C'
	keySort string
}

// heapTerm returns the current term of a heap, declaring its entry version on
// first use.
func (e *Exec) heapTerm(st *State, name string) string {
	if t, ok := st.heaps[name]; ok {
		return t
	}
	hi := e.heapInfos[name]
	if hi == nil {
		panic("heap without info: " + name)
	}
	t := fmt.Sprintf("%s!e%d", name, st.epoch)
	if _, ok := e.ctx.declared[t]; !ok {
		e.ctx.declare(t, hi.sort)
		if st.epoch == 0 {
			saved := e.ctx.tag
			e.ctx.tag = 0
			e.entryFacts = true
			e.heapFacts(st, name, t, hi, e.nextRef0, "true")
			e.entryFacts = false
			e.ctx.tag = saved
		} else if ef := e.epochFrames[st.epoch]; ef != nil {
			// heap first mentioned after an effect with a known frame: relate
			// it to the version before that effect
			old := e.heapTerm(ef.prev, name)
			saved := e.ctx.tag
			e.ctx.tag = ef.tag
			if k := ef.keep(name); k != nil {
				e.frameAssume(ef.pc, name, t, old, k)
			}
			e.heapFacts(st, name, t, hi, ef.nextRefAfter, ef.pc)
			e.ctx.tag = saved
		}
	}
	return t
}

// epochFrame describes an effect after which every heap not explicitly
// re-versioned keeps the contents of the objects selected by keep.
type epochFrame struct {
	tag          int
	prev         *State
	pc           string
	nextRefAfter string
	keep         func(heap string) func(r string) string
}

// freshAllHavoc: the effect may allocate and initialise arbitrary new
// objects (in any heap) in addition to what was havoced explicitly. All heaps
// not in `explicit` get a lazily declared new version that agrees with the
// previous one on every object that existed before.
func (e *Exec) freshAllHavoc(st *State, prev *State, explicit map[string]string) {
	preRef := prev.nextRef
	ep := e.newEpoch()
	e.epochFrames[ep] = &epochFrame{tag: st.id, prev: prev, pc: st.pc, nextRefAfter: st.nextRef,
		keep: func(heap string) func(r string) string {
			return func(r string) string { return lt(app("root", r), preRef) }
		}}
	st.epoch = ep
	st.heaps = map[string]string{}
	for k, v := range explicit {
		st.heaps[k] = v
	}
}

// entryHeapFacts: at function entry every reference stored in memory refers
// to an object allocated before entry; every slice header is well formed.
func (e *Exec) heapFacts(st *State, name, t string, hi *heapInfo, nextRef, pc string) {
	switch hi.kind {
	case 'D':
		// the nil map has no keys
		e.ctx.assume(imp(pc, fmt.Sprintf("(forall ((k %s)) (! (not (select (select %s 0) k)) :pattern ((select (select %s 0) k))))", hi.keySort, t, t)))
	case 'V':
		// normal form: keys outside the domain map to the zero value
		md := e.heapTerm(st, "MD$"+strings.TrimPrefix(name, "MV$"))
		z := e.ctx.zero(hi.valType)
		e.ctx.assume(imp(pc, fmt.Sprintf("(forall ((r Int) (k %s)) (! (=> (not (select (select %s r) k)) (= (select (select %s r) k) %s)) :pattern ((select (select %s r) k))))", hi.keySort, md, t, z, t)))
	}
	if hi.valType == nil {
		if hi.kind == 'G' {
			if e.entryFacts {
				// a goroutine / function under contract starts with no lock held
				// unless its `requires` say otherwise: only the entry version is 0
				// where the contract does not constrain it
			}
		}
		return
	}
	var v, bind string
	switch hi.kind {
	case 'H', 'B':
		v, bind = "(select "+t+" r)", "((r Int))"
	case 'E':
		v, bind = "(select (select "+t+" r) i)", "((r Int) (i Int))"
	case 'V':
		v, bind = "(select (select "+t+" r) k)", "((r Int) (k "+hi.keySort+"))"
	}
	f := e.valueFacts(v, hi.valType, nextRef)
	if f != "true" {
		// only objects that exist (are allocated) carry well-typed contents;
		// nothing is known about memory that has not been allocated yet
		alloc := lt(app("root", "r"), nextRef)
		e.ctx.assume(imp(pc, "(forall "+bind+" (! "+imp(alloc, f)+" :pattern ("+v+")))"))
	}
}

// valueFacts: facts true of any value of Go type t that exists while nextRef
// has the given value (allocated-ness, ranges, slice header shape).
func (e *Exec) valueFacts(v string, t types.Type, nextRef string) string {
	switch u := t.Underlying().(type) {
	case *types.Basic:
		if u.Info()&types.IsInteger != 0 && !e.ctx.bv {
			lo, hi := intRange(u)
			return and(le(lo, v), le(v, hi))
		}
		return "true"
	case *types.Pointer, *types.Map, *types.Chan:
		if e.ctx.bv {
			return "true"
		}
		return lt(app("root", v), nextRef)
	case *types.Slice:
		if e.ctx.bv {
			return "true"
		}
		return and(le("0", slOff(v)), le("0", slLen(v)), le(slLen(v), slCap(v)), lt(slCap(v), "281474976710656"),
			le("0", slRef(v)), lt(slRef(v), nextRef), imp(eq(slRef(v), "0"), eq(slCap(v), "0")))
	case *types.Struct:
		si := e.ctx.structSort(t)
		var fs []string
		for i := 0; i < u.NumFields(); i++ {
			fs = append(fs, e.valueFacts(si.get(v, i), u.Field(i).Type(), nextRef))
		}
		return and(fs...)
	}
	return "true"
}

func intRange(b *types.Basic) (string, string) {
	switch b.Kind() {
	case types.Int8:
		return "(- 128)", "127"
	case types.Int16:
		return "(- 32768)", "32767"
	case types.Int32:
		return "(- 2147483648)", "2147483647"
	case types.Uint8:
		return "0", "255"
	case types.Uint16:
		return "0", "65535"
	case types.Uint32:
		return "0", "4294967295"
	case types.Uint, types.Uint64, types.Uintptr:
		return "0", "18446744073709551615"
	}
	return "(- 9223372036854775808)", "9223372036854775807"
}

func (e *Exec) regHeap(name, sort string, vt types.Type, kind byte, keySort string) string {
	if _, ok := e.heapInfos[name]; !ok {
		e.heapInfos[name] = &heapInfo{sort: sort, valType: vt, kind: kind, keySort: keySort}
	}
	return name
}

func (e *Exec) fieldHeap(owner types.Type, i int) string {
	st := owner.Underlying().(*types.Struct)
	ft := st.Field(i).Type()
	return e.regHeap(fieldHeapName(owner, i), arraySort(sInt, e.ctx.sortOf(ft)), ft, 'H', "")
}
func (e *Exec) elemHeap(elem types.Type) string {
	return e.regHeap(elemHeapName(elem), arraySort(sInt, arraySort(sInt, e.ctx.sortOf(elem))), elem, 'E', "")
}
func (e *Exec) boxHeap(t types.Type) string {
	return e.regHeap(boxHeapName(t), arraySort(sInt, e.ctx.sortOf(t)), t, 'B', "")
}
func (e *Exec) mapHeaps(m *types.Map) (string, string) {
	md, mv := mapHeapNames(m)
	ks := e.ctx.sortOf(m.Key())
	e.regHeap(md, arraySort(sInt, arraySort(ks, sBool)), nil, 'D', ks)
	e.regHeap(mv, arraySort(sInt, arraySort(ks, e.ctx.sortOf(m.Elem()))), m.Elem(), 'V', ks)
	return md, mv
}

// cardFn returns the cardinality function for sets of keys of sort ks,
// declaring it with the finite-set axioms (named lemmas CARD-*) on first use.
func (e *Exec) cardFn(ks string) string {
	fn := "card_" + sanitize(ks)
	if _, ok := e.ctx.declared[fn]; ok {
		return fn
	}
	as := arraySort(ks, sBool)
	e.ctx.declareFun(fn, []string{as}, sInt)
	e.ctx.declareFun(fn+"_wit", []string{as}, ks)
	e.ctx.declareFun(fn+"_dwit", []string{as, as}, ks)
	ax := []string{
		fmt.Sprintf("(forall ((A %s)) (! (>= (%s A) 0) :pattern ((%s A))))", as, fn, fn),
		fmt.Sprintf("(= (%s ((as const %s) false)) 0)", fn, as),
		fmt.Sprintf("(forall ((A %s) (k %s)) (! (= (%s (store A k true)) (+ (%s A) (ite (select A k) 0 1))) :pattern ((%s (store A k true)))))", as, ks, fn, fn, fn),
		fmt.Sprintf("(forall ((A %s) (k %s)) (! (= (%s (store A k false)) (- (%s A) (ite (select A k) 1 0))) :pattern ((%s (store A k false)))))", as, ks, fn, fn, fn),
		fmt.Sprintf("(forall ((A %s) (k %s)) (! (=> (select A k) (>= (%s A) 1)) :pattern ((select A k) (%s A))))", as, ks, fn, fn),
		fmt.Sprintf("(forall ((A %s)) (! (=> (> (%s A) 0) (select A (%s_wit A))) :pattern ((%s A))))", as, fn, fn, fn),
		fmt.Sprintf("(forall ((A %s) (B %s)) (! (or (and (select A (%s_dwit A B)) (not (select B (%s_dwit A B)))) (and (<= (%s A) (%s B)) (=> (= (%s A) (%s B)) (= A B)))) :pattern ((%s A) (%s B))))", as, as, fn, fn, fn, fn, fn, fn, fn, fn),
	}
	if !e.uses("CARD-SUBSET") {
		ax = ax[:len(ax)-1]
	}
	for _, a := range ax {
		e.ctx.assumeGlobal(a)
	}
	e.trust("finite-set cardinality lemmas CARD (card >= 0; card(empty) = 0; card of insert/delete; member ==> card >= 1; card > 0 ==> some member; A subset B ==> |A| <= |B| with equality only if A = B) are assumed mathematical facts about Go maps (which are finite)")
	return fn
}

// setHeap installs a new version of a heap, naming it with a fresh constant so
// that terms stay small.
func (e *Exec) setHeap(st *State, name, term string) {
	hi := e.heapInfos[name]
	c := e.ctx.fresh(name, hi.sort)
	e.ctx.assume(eq(c, term))
	st.heaps[name] = c
	if hi.kind == 'E' {
		e.elemStoreFrame(c, term, hi)
	}
}

// splitSexp splits the top-level arguments of an application "(f a b c)".
func splitSexp(t string) []string {
	if len(t) < 2 || t[0] != '(' || t[len(t)-1] != ')' {
		return nil
	}
	t = t[1 : len(t)-1]
	var out []string
	d, start := 0, 0
	for i := 0; i <= len(t); i++ {
		if i == len(t) || (t[i] == ' ' && d == 0) {
			if i > start {
				out = append(out, t[start:i])
			}
			start = i + 1
			continue
		}
		switch t[i] {
		case '(':
			d++
		case ')':
			d--
		}
	}
	return out
}

// elemStoreFrame: when an element heap version is `store old r X`, state at
// the level of the el$ function which slice elements are unchanged, so that
// quantified facts about slices survive updates of other slices.
func (e *Exec) elemStoreFrame(nw, term string, hi *heapInfo) {
	a := splitSexp(term)
	if len(a) != 4 || a[0] != "store" {
		return
	}
	old, r, x := a[1], a[2], a[3]
	newEl := e.elemAt(nw, hi.valType, "s", "i")
	oldEl := e.elemAt(old, hi.valType, "s", "i")
	b := splitSexp(x)
	if len(b) == 4 && b[0] == "store" && b[1] == sel(old, r) {
		abs, v := b[2], b[3]
		hit := and(eq(slRef("s"), r), eq(add(slOff("s"), "i"), abs))
		e.ctx.assume(fmt.Sprintf("(forall ((s Slice) (i Int)) (! (= %s (ite %s %s %s)) :pattern (%s)))", newEl, hit, v, oldEl, newEl))
		return
	}
	e.ctx.assume(fmt.Sprintf("(forall ((s Slice) (i Int)) (! (=> (not (= (sl_ref s) %s)) (= %s %s)) :pattern (%s)))", r, newEl, oldEl, newEl))
}

// frameAssume: heap version nw agrees with old on every object satisfying
// keep(r); for element heaps the same is stated for the el$ function.
func (e *Exec) frameAssume(pc, name, nw, old string, keep func(r string) string) {
	hi := e.heapInfos[name]
	if hi.kind == 'g' || hi.kind == 'G' {
		return
	}
	e.ctx.assume(imp(pc, fmt.Sprintf("(forall ((r Int)) (! (=> %s (= (select %s r) (select %s r))) :pattern ((select %s r))))", keep("r"), nw, old, nw)))
	if hi.kind == 'E' {
		newEl := e.elemAt(nw, hi.valType, "s", "i")
		oldEl := e.elemAt(old, hi.valType, "s", "i")
		e.ctx.assume(imp(pc, fmt.Sprintf("(forall ((s Slice) (i Int)) (! (=> %s (= %s %s)) :pattern (%s)))", keep("(sl_ref s)"), newEl, oldEl, newEl)))
	}
}

// havocHeap replaces a heap by an unconstrained fresh version and returns
// (old, new).
func (e *Exec) havocHeap(st *State, name string) (string, string) {
	old := e.heapTerm(st, name)
	hi := e.heapInfos[name]
	c := e.ctx.fresh(name, hi.sort)
	st.heaps[name] = c
	return old, c
}

// havocHeapTyped havocs a heap and re-asserts the typing facts that hold of
// any heap (stored references are allocated, slice headers well formed).
func (e *Exec) havocHeapTyped(st *State, name, nextRefAfter string) (string, string) {
	old, nw := e.havocHeap(st, name)
	e.heapFacts(st, name, nw, e.heapInfos[name], nextRefAfter, st.pc)
	return old, nw
}

// ---------------------------------------------------------------- merging

func (e *Exec) mergeStates(ins []*State) *State {
	var live []*State
	for _, s := range ins {
		if s != nil && !s.dead && s.pc != "false" {
			live = append(live, s)
		}
	}
	if len(live) == 0 {
		return &State{pc: "false", dead: true, cells: map[*ssa.Alloc]Val{}, heaps: map[string]string{}, ghost: map[string]Val{}, nextRef: e.nextRef0}
	}
	if len(live) == 1 {
		return e.fork(live[0])
	}
	out := live[0].clone()
	// acquisition snapshots survive a merge only when all branches agree
	for k, v := range out.snaps {
		for _, l := range live[1:] {
			if l.snaps[k] != v {
				delete(out.snaps, k)
				break
			}
		}
	}
	e.stateSeq++
	out.id = e.stateSeq
	for _, l := range live {
		e.ctx.parents[out.id] = append(e.ctx.parents[out.id], l.id)
	}
	e.ctx.tag = out.id
	pcs := make([]string, len(live))
	for i, s := range live {
		pcs[i] = s.pc
	}
	pc := e.ctx.fresh("pc", sBool)
	e.ctx.assume(eq(pc, or(pcs...)))
	out.pc = pc
	// epoch: if they differ, materialise heaps of the lower epochs
	maxEpoch := 0
	for _, s := range live {
		if s.epoch > maxEpoch {
			maxEpoch = s.epoch
		}
	}
	out.epoch = maxEpoch
	// heaps
	names := map[string]bool{}
	for _, s := range live {
		for k := range s.heaps {
			names[k] = true
		}
	}
	diffEpoch := false
	for _, s := range live {
		if s.epoch != maxEpoch {
			diffEpoch = true
		}
	}
	if diffEpoch {
		for k := range e.heapInfos {
			names[k] = true
		}
	}
	hn := make([]string, 0, len(names))
	for k := range names {
		hn = append(hn, k)
	}
	sort.Strings(hn)
	for _, name := range hn {
		terms := make([]string, len(live))
		same := true
		for i, s := range live {
			terms[i] = e.heapTerm(s, name)
			if terms[i] != terms[0] {
				same = false
			}
		}
		if same {
			out.heaps[name] = terms[0]
			continue
		}
		c := e.ctx.fresh(name, e.heapInfos[name].sort)
		for i := range live {
			e.ctx.assume(imp(pcs[i], eq(c, terms[i])))
		}
		out.heaps[name] = c
	}
	// nextRef
	{
		same := true
		for _, s := range live {
			if s.nextRef != live[0].nextRef {
				same = false
			}
		}
		if !same {
			c := e.ctx.fresh("nextRef", sInt)
			for i, s := range live {
				e.ctx.assume(imp(pcs[i], eq(c, s.nextRef)))
			}
			out.nextRef = c
		}
	}
	// cells
	cellset := map[*ssa.Alloc]bool{}
	for _, s := range live {
		for k := range s.cells {
			cellset[k] = true
		}
	}
	for _, k := range sortedAllocs(cellset) {
		vals := make([]Val, len(live))
		ok := true
		for i, s := range live {
			v, has := s.cells[k]
			if !has {
				ok = false
				break
			}
			vals[i] = v
		}
		if !ok {
			delete(out.cells, k)
			continue
		}
		out.cells[k] = e.mergeVals(pcs, vals, k.Comment)
	}
	// ghost
	gset := map[string]bool{}
	for _, s := range live {
		for k := range s.ghost {
			gset[k] = true
		}
	}
	for _, k := range sortedKeys(gset) {
		vals := make([]Val, len(live))
		ok := true
		for i, s := range live {
			v, has := s.ghost[k]
			if !has {
				ok = false
				break
			}
			vals[i] = v
		}
		if !ok {
			delete(out.ghost, k)
			continue
		}
		out.ghost[k] = e.mergeVals(pcs, vals, k)
	}
	return out
}

func valEqual(a, b Val) bool {
	if a.Bad != "" || b.Bad != "" {
		return false
	}
	if a.Addr != nil || b.Addr != nil {
		return a.Addr == b.Addr
	}
	if a.Clo != nil || b.Clo != nil {
		if a.Clo == nil || b.Clo == nil || a.Clo.Fn != b.Clo.Fn || len(a.Clo.Bindings) != len(b.Clo.Bindings) {
			return false
		}
		for i := range a.Clo.Bindings {
			if !valEqual(a.Clo.Bindings[i], b.Clo.Bindings[i]) {
				return false
			}
		}
		return true
	}
	if len(a.Tup) != len(b.Tup) {
		return false
	}
	for i := range a.Tup {
		if !valEqual(a.Tup[i], b.Tup[i]) {
			return false
		}
	}
	return a.T == b.T
}

func (e *Exec) mergeVals(pcs []string, vals []Val, hint string) Val {
	same := true
	for _, v := range vals[1:] {
		if !valEqual(vals[0], v) {
			same = false
		}
	}
	if same {
		return vals[0]
	}
	for _, v := range vals {
		if v.Addr != nil || v.Clo != nil || v.Bad != "" || v.S == "" {
			return Val{Bad: "merge of non-term values (" + hint + ")", GoT: vals[0].GoT, S: vals[0].S}
		}
	}
	if len(vals[0].Tup) > 0 {
		out := Val{GoT: vals[0].GoT}
		for i := range vals[0].Tup {
			col := make([]Val, len(vals))
			for j := range vals {
				col[j] = vals[j].Tup[i]
			}
			out.Tup = append(out.Tup, e.mergeVals(pcs, col, hint))
		}
		return out
	}
	c := e.ctx.fresh(hint, vals[0].S)
	for i, v := range vals {
		e.ctx.assume(imp(pcs[i], eq(c, v.T)))
	}
	return Val{T: c, S: vals[0].S, GoT: vals[0].GoT}
}

func describeAddr(a *Addr) string {
	if a == nil {
		return "<nil>"
	}
	switch a.Kind {
	case aCell:
		return "cell(" + a.Cell.Comment + ")"
	case aField:
		return fmt.Sprintf("field(%s,%d)", a.Ref, a.Fld)
	case aElem:
		return "elem(" + a.Sl + "," + a.Idx + ")"
	case aSub:
		return describeAddr(a.Base) + fmt.Sprintf(".%d", a.Fld)
	case aArr:
		return describeAddr(a.Base) + "[" + a.Idx + "]"
	case aBox:
		return "box(" + a.Ref + ")"
	}
	return "?"
}

var _ = strings.Join

func (e *Exec) uses(name string) bool {
	if e.spec == nil {
		return false
	}
	for _, u := range e.spec.Uses {
		if u == name {
			return true
		}
	}
	return false
}

// elemAt is the i-th element of slice sl in element heap version ht. It is
// an SMT function with a definitional axiom so that quantifier patterns can
// mention it without arithmetic sub-terms.
func (e *Exec) elemAt(ht string, elem types.Type, sl, i string) string {
	fn := "el$" + typeKey(elem)
	if _, ok := e.ctx.declared[fn]; !ok {
		hs := arraySort(sInt, arraySort(sInt, e.ctx.sortOf(elem)))
		e.ctx.declareFun(fn, []string{hs, sSlice, sInt}, e.ctx.sortOf(elem))
		e.ctx.assumeGlobal(fmt.Sprintf("(forall ((H %s) (s Slice) (i Int)) (! (= (%s H s i) (select (select H (sl_ref s)) (+ (sl_off s) i))) :pattern ((%s H s i))))", hs, fn, fn))
	}
	return app(fn, ht, sl, i)
}
