package main

import (
	"fmt"
	"go/token"
	"go/types"

	"golang.org/x/tools/go/ssa"
)

func (e *Exec) builtin(fr *frame, st *State, name string, c *ssa.CallCommon, args []Val, rt types.Type, pos token.Pos) Val {
	targ := func(i int) Val {
		a := args[i]
		if a.Bad != "" || a.T == "" {
			return e.tval(fr, st, c.Args[i])
		}
		return a
	}
	switch name {
	case "len":
		x := targ(0)
		switch u := c.Args[0].Type().Underlying().(type) {
		case *types.Slice:
			return Val{T: slLen(x.T), S: sInt}
		case *types.Basic:
			return Val{T: app("slen", x.T), S: sInt}
		case *types.Map:
			e.mapCardFacts(st, u, x.T)
			return Val{T: e.mapLen(st, u, x.T), S: sInt}
		case *types.Array:
			return Val{T: num(u.Len()), S: sInt}
		case *types.Pointer:
			if a, ok := u.Elem().Underlying().(*types.Array); ok {
				return Val{T: num(a.Len()), S: sInt}
			}
		}
		h := e.havocVal(st, rt, "len")
		e.ctx.assume(imp(st.pc, le("0", h.T)))
		return h
	case "cap":
		x := targ(0)
		if _, ok := c.Args[0].Type().Underlying().(*types.Slice); ok {
			return Val{T: slCap(x.T), S: sInt}
		}
		h := e.havocVal(st, rt, "cap")
		e.ctx.assume(imp(st.pc, le("0", h.T)))
		return h
	case "append":
		return e.builtinAppend(fr, st, c, targ(0), targ(1), pos)
	case "copy":
		return e.builtinCopy(fr, st, c, targ(0), targ(1), pos)
	case "delete":
		mt := c.Args[0].Type().Underlying().(*types.Map)
		e.mapDelete(fr, st, mt, targ(0).T, targ(1).T, pos)
		return Val{Tup: []Val{}}
	case "min", "max":
		x := targ(0)
		for i := 1; i < len(args); i++ {
			y := targ(i)
			if x.S == sInt {
				if name == "min" {
					x = Val{T: ite(le(x.T, y.T), x.T, y.T), S: sInt}
				} else {
					x = Val{T: ite(le(x.T, y.T), y.T, x.T), S: sInt}
				}
			} else {
				return e.havocVal(st, rt, name)
			}
		}
		return x
	case "print", "println":
		return Val{Tup: []Val{}}
	case "ssa:wrapnilchk":
		x := targ(0)
		e.oblige(fr, st, "nilptr", "nil receiver in method value", pos, not(eq(x.T, "0")))
		return x
	case "ssa:deferstack":
		return Val{T: "0", S: sInt}
	case "recover":
		return e.havocVal(st, rt, "recover")
	case "close":
		e.closePerm(fr, st, targ(0).T, pos)
		return Val{Tup: []Val{}}
	}
	e.note("%s: builtin %s not modelled", e.w.pos(pos), name)
	return e.havocVal(st, rt, name)
}

// knownLen: if the slice term is a slice of a fixed-size array allocation
// (varargs), return its constant length.
func constLen(t string) (int, bool) {
	var r, o string
	var l, c int
	// terms look like (mk_slice ref!12 0 1 1)
	n, err := fmt.Sscanf(t, "(mk_slice %s %s %d %d)", &r, &o, &l, &c)
	if err == nil && n == 4 && o == "0" {
		return l, true
	}
	return 0, false
}

// append(s, t...): in place when the capacity suffices, else a fresh array.
func (e *Exec) builtinAppend(fr *frame, st *State, c *ssa.CallCommon, s, t Val, pos token.Pos) Val {
	sl := c.Args[0].Type().Underlying().(*types.Slice)
	el := sl.Elem()
	h := e.elemHeap(el)
	ht := e.heapTerm(st, h)
	var tAt func(j string) string
	var k string
	isStr := false
	if _, ok := c.Args[1].Type().Underlying().(*types.Basic); ok {
		// append([]byte, string...)
		isStr = true
		k = app("slen", t.T)
		tAt = func(j string) string { return app("sat", t.T, j) }
	} else {
		k = slLen(t.T)
		tAt = func(j string) string { return e.elemAt(ht, el, t.T, j) }
	}
	if cl, ok := constLen(t.T); ok && cl == 0 {
		return s
	}
	n := add(slLen(s.T), k)
	// appending nothing returns s itself (in particular nil stays nil)
	fits := or(and(le(n, slCap(s.T)), not(eq(slRef(s.T), "0"))), eq(k, "0"))
	nr := e.alloc(st)
	res := e.ctx.fresh("appended", sSlice)
	cp := slCap(res)
	e.ctx.assume(imp(st.pc, and(
		eq(slRef(res), ite(fits, slRef(s.T), nr)),
		eq(slOff(res), ite(fits, slOff(s.T), "0")),
		eq(slLen(res), n),
		imp(fits, eq(cp, slCap(s.T))),
		imp(not(fits), and(le(n, cp), lt(cp, "281474976710656"))))))
	// in-place case writes the caller-visible backing array
	if e.spec != nil && e.spec.HasMod && !e.modAll {
		s2 := st.clone()
		s2.pc = and(st.pc, fits, lt("0", k))
		e.frameCheck(fr, s2, h, slRef(s.T), pos)
	}
	olds := sel(ht, slRef(s.T))
	arr := e.ctx.fresh("apparr", arraySort(sInt, e.ctx.sortOf(el)))
	e.setHeap(st, h, sto(ht, slRef(res), arr))
	nht := e.heapTerm(st, h)
	// old contents of s
	e.ctx.assume(imp(st.pc, fmt.Sprintf("(forall ((i Int)) (! (=> (and (<= 0 i) (< i %s)) (= %s %s)) :pattern (%s) :pattern (%s)))",
		slLen(s.T), e.elemAt(nht, el, res, "i"), e.elemAt(ht, el, s.T, "i"), e.elemAt(nht, el, res, "i"), e.elemAt(ht, el, s.T, "i"))))
	if cl, ok := constLen(t.T); ok && cl <= 4 {
		for j := 0; j < cl; j++ {
			e.ctx.assume(imp(st.pc, eq(e.elemAt(nht, el, res, add(slLen(s.T), num(int64(j)))), tAt(num(int64(j))))))
		}
	} else {
		pat := ""
		if !isStr {
			pat = " :pattern (" + tAt("(- i "+slLen(s.T)+")") + ")"
		}
		e.ctx.assume(imp(st.pc, fmt.Sprintf("(forall ((i Int)) (! (=> (and (<= %s i) (< i %s)) (= %s %s)) :pattern (%s)%s))",
			slLen(s.T), n, e.elemAt(nht, el, res, "i"), tAt("(- i "+slLen(s.T)+")"), e.elemAt(nht, el, res, "i"), pat)))
		if !isStr {
			e.ctx.assume(imp(st.pc, fmt.Sprintf("(forall ((j Int)) (! (=> (and (<= 0 j) (< j %s)) (= %s %s)) :pattern (%s)))",
				k, e.elemAt(nht, el, res, "(+ "+slLen(s.T)+" j)"), tAt("j"), tAt("j"))))
		}
	}
	if e.uses("ELEMPTR") && !isStr {
		// element pointers read the backing array directly: state the contents
		// of the result also at array level
		e.ctx.assume(imp(st.pc, fmt.Sprintf("(forall ((p Int)) (! (=> (and (<= (+ %s %s) p) (< p (+ %s %s))) (= (select %s p) %s)) :pattern ((select %s p))))",
			slOff(res), slLen(s.T), slOff(res), n, arr, tAt("(- (- p "+slOff(res)+") "+slLen(s.T)+")"), arr)))
		e.ctx.assume(imp(st.pc, fmt.Sprintf("(forall ((p Int)) (! (=> (and (<= %s p) (< p (+ %s %s))) (= (select %s p) %s)) :pattern ((select %s p))))",
			slOff(res), slOff(res), slLen(s.T), arr, e.elemAt(ht, el, s.T, "(- p "+slOff(res)+")"), arr)))
	}
	// in place: indices outside the appended window keep their contents
	e.ctx.assume(imp(and(st.pc, fits), fmt.Sprintf("(forall ((i Int)) (! (=> (or (< i (+ %s %s)) (>= i (+ %s %s))) (= (select %s i) (select %s i))) :pattern ((select %s i))))",
		slOff(s.T), slLen(s.T), slOff(s.T), n, arr, olds, arr)))
	return Val{T: res, S: sSlice}
}

func (e *Exec) builtinCopy(fr *frame, st *State, c *ssa.CallCommon, dst, src Val, pos token.Pos) Val {
	sl := c.Args[0].Type().Underlying().(*types.Slice)
	el := sl.Elem()
	h := e.elemHeap(el)
	var k string
	var sAt func(j string) string
	ht := e.heapTerm(st, h)
	isStr := false
	if _, ok := c.Args[1].Type().Underlying().(*types.Basic); ok {
		isStr = true
		k = app("slen", src.T)
		sAt = func(j string) string { return app("sat", src.T, j) }
	} else {
		k = slLen(src.T)
		sAt = func(j string) string { return e.elemAt(ht, el, src.T, j) }
	}
	n := e.ctx.fresh("ncopy", sInt)
	e.ctx.assume(imp(st.pc, eq(n, ite(le(slLen(dst.T), k), slLen(dst.T), k))))
	if e.spec != nil && e.spec.HasMod && !e.modAll {
		s2 := st.clone()
		s2.pc = and(st.pc, lt("0", n))
		e.frameCheck(fr, s2, h, slRef(dst.T), pos)
	}
	olds := sel(ht, slRef(dst.T))
	arr := e.ctx.fresh("cparr", arraySort(sInt, e.ctx.sortOf(el)))
	e.setHeap(st, h, ite(lt("0", n), sto(ht, slRef(dst.T), arr), ht))
	nht := e.heapTerm(st, h)
	e.ctx.assume(fmt.Sprintf("(forall ((s Slice) (i Int)) (! (=> (not (= (sl_ref s) %s)) (= %s %s)) :pattern (%s)))", slRef(dst.T), e.elemAt(nht, el, "s", "i"), e.elemAt(ht, el, "s", "i"), e.elemAt(nht, el, "s", "i")))
	pat := ""
	if !isStr {
		pat = " :pattern (" + sAt("j") + ")"
	}
	e.ctx.assume(imp(st.pc, fmt.Sprintf("(forall ((j Int)) (! (=> (and (<= 0 j) (< j %s)) (= %s %s)) :pattern (%s)%s))",
		n, e.elemAt(nht, el, dst.T, "j"), sAt("j"), e.elemAt(nht, el, dst.T, "j"), pat)))
	e.ctx.assume(imp(st.pc, fmt.Sprintf("(forall ((i Int)) (! (=> (or (< i %s) (>= i (+ %s %s))) (= (select %s i) (select %s i))) :pattern ((select %s i))))",
		slOff(dst.T), slOff(dst.T), n, arr, olds, arr)))
	return Val{T: n, S: sInt}
}
