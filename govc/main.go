package main

import (
	"encoding/json"
	"flag"
	"fmt"
	"os"
	"path/filepath"
	"runtime"
	"sort"
	"strings"
	"time"

	"golang.org/x/tools/go/ssa"
)

var (
	repoDir  = "/repo"
	verifDir = "/verif"
	outDir   = "/verif" // evidence/ and replays/ are written below this
)

const contractFile = "zz_contracts_verif.go"

type contractSrc struct {
	path   string
	dir    string
	modDir string
	pkg    string // import path, filled after loading
}

func findContracts() ([]*contractSrc, error) {
	var out []*contractSrc
	err := filepath.Walk(repoDir, func(p string, info os.FileInfo, err error) error {
		if err != nil {
			return nil
		}
		if info.IsDir() && (info.Name() == ".git" || info.Name() == "testdata") {
			return filepath.SkipDir
		}
		if !info.IsDir() && info.Name() == contractFile {
			d := filepath.Dir(p)
			m := d
			for {
				if _, err := os.Stat(filepath.Join(m, "go.mod")); err == nil {
					break
				}
				if m == "/" || m == repoDir {
					m = repoDir
					break
				}
				m = filepath.Dir(m)
			}
			out = append(out, &contractSrc{path: p, dir: d, modDir: m})
		}
		return nil
	})
	sort.Slice(out, func(i, j int) bool { return out[i].path < out[j].path })
	return out, err
}

// Session holds loaded worlds and the merged spec set.
type Session struct {
	worlds map[string]*World // by module dir
	ss     map[string]*SpecSet
	srcs   []*contractSrc
}

func (s *Session) Close() {
	for _, w := range s.worlds {
		w.Close()
	}
}

func externSpecFiles() []string {
	fs, _ := filepath.Glob(filepath.Join(verifDir, "contracts", "extern", "*.spec"))
	sort.Strings(fs)
	return fs
}

// loadSession loads the modules that contain contract files (optionally only
// those whose contracts mention prop).
func loadSession(prop string) (*Session, error) {
	srcs, err := findContracts()
	if err != nil {
		return nil, err
	}
	s := &Session{worlds: map[string]*World{}, ss: map[string]*SpecSet{}, srcs: srcs}
	// a module is loaded (with all its contract files, which may refer to each
	// other's spec functions) when one of its contract files mentions prop
	wanted := map[string]bool{}
	for _, c := range srcs {
		if prop == "" {
			wanted[c.modDir] = true
			continue
		}
		b, _ := os.ReadFile(c.path)
		if mentionsProp(string(b), prop) {
			wanted[c.modDir] = true
		}
	}
	byMod := map[string][]*contractSrc{}
	for _, c := range srcs {
		if wanted[c.modDir] {
			byMod[c.modDir] = append(byMod[c.modDir], c)
		}
	}
	for mod, cs := range byMod {
		var pats []string
		for _, c := range cs {
			rel, _ := filepath.Rel(mod, c.dir)
			pats = append(pats, "./"+rel)
		}
		w, err := loadWorld(mod, pats)
		if err != nil {
			return nil, err
		}
		s.worlds[mod] = w
		ss := newSpecSet()
		for _, f := range externSpecFiles() {
			if err := ss.parseFile(f, ""); err != nil {
				return nil, err
			}
		}
		for k, fs := range ss.Funcs {
			fs.Extern = true
			_ = k
		}
		for _, c := range cs {
			for _, p := range w.Pkgs {
				if len(p.GoFiles) > 0 && filepath.Dir(p.GoFiles[0]) == c.dir {
					c.pkg = p.PkgPath
				}
			}
			if c.pkg == "" {
				return nil, fmt.Errorf("no package loaded for %s", c.dir)
			}
			if err := ss.parseFile(c.path, c.pkg); err != nil {
				return nil, err
			}
		}
		s.ss[mod] = ss
	}
	return s, nil
}

func mentionsProp(text, prop string) bool {
	for _, ln := range strings.Split(text, "\n") {
		if strings.Contains(ln, "props") {
			for _, f := range strings.Fields(ln) {
				if f == prop {
					return true
				}
			}
		}
	}
	return false
}

func hasProp(fs *FuncSpec, prop string) bool {
	for _, p := range fs.Props {
		if p == prop {
			return true
		}
	}
	return false
}

type target struct {
	w    *World
	ss   *SpecSet
	fn   *ssa.Function
	spec *FuncSpec
	key  string
}

func (s *Session) targets(prop string, only string) ([]target, []string) {
	var out []target
	var missing []string
	for mod, ss := range s.ss {
		w := s.worlds[mod]
		for _, key := range sortedKeys(ss.Funcs) {
			fs := ss.Funcs[key]
			if fs.Extern || fs.Trusted {
				continue
			}
			if strings.Contains(fs.Target, "fieldfunc ") || strings.HasPrefix(fs.Target, "iface ") || strings.Contains(fs.Target, "typefunc ") {
				continue
			}
			if prop != "" && !hasProp(fs, prop) {
				continue
			}
			if only != "" && !strings.Contains(key, only) {
				continue
			}
			if strings.HasPrefix(fs.Target, "prove ") {
				out = append(out, target{w, ss, nil, fs, key})
				continue
			}
			fn := w.lookupFunc(fs.Pkg, fs.Target)
			if fn == nil {
				missing = append(missing, key)
				continue
			}
			if fs.Inline && len(fs.Requires)+len(fs.Ensures) == 0 {
				continue
			}
			out = append(out, target{w, ss, fn, fs, key})
		}
	}
	if prop != "" && only == "" {
		out = s.closeTargets(out)
	}
	sort.Slice(out, func(i, j int) bool { return out[i].key < out[j].key })
	return out, missing
}

// closeTargets adds, to the functions labelled with a property, every function
// under contract that they call (directly or through closures, go and defer
// statements), transitively, and the `prove` blocks they use: the proof of a
// caller relies on the callee's contract, which is only established by
// verifying the callee's body, so a change inside a callee must be seen by the
// check of every property whose functions call it.
func (s *Session) closeTargets(seed []target) []target {
	all, _ := s.targets("", "")
	byKey := map[string]target{}
	for _, t := range all {
		byKey[t.key] = t
	}
	in := map[string]bool{}
	work := append([]target(nil), seed...)
	for _, t := range seed {
		in[t.key] = true
	}
	out := append([]target(nil), seed...)
	add := func(key string) {
		if t, ok := byKey[key]; ok && !in[key] {
			in[key] = true
			out = append(out, t)
			work = append(work, t)
		}
	}
	for len(work) > 0 {
		t := work[len(work)-1]
		work = work[:len(work)-1]
		for _, u := range t.spec.Uses {
			add(t.spec.Pkg + ".prove " + u)
		}
		if t.fn == nil {
			continue
		}
		var walk func(fn *ssa.Function, depth int)
		walk = func(fn *ssa.Function, depth int) {
			for _, b := range fn.Blocks {
				for _, ins := range b.Instrs {
					var callee *ssa.Function
					switch x := ins.(type) {
					case *ssa.Call:
						callee = x.Call.StaticCallee()
					case *ssa.Go:
						callee = x.Call.StaticCallee()
					case *ssa.Defer:
						callee = x.Call.StaticCallee()
					case *ssa.MakeClosure:
						callee, _ = x.Fn.(*ssa.Function)
					}
					if callee == nil {
						continue
					}
					k := funcKey(callee)
					if _, ok := byKey[k]; ok {
						add(k)
					} else if depth < 4 && callee.Blocks != nil && strings.Contains(k, "licenseclassifier") {
						// a function of the repository without a contract of its own
						// (inlined or default contract): look through it
						walk(callee, depth+1)
					}
				}
			}
		}
		walk(t.fn, 0)
	}
	return out
}

func main() {
	if len(os.Args) < 2 {
		fmt.Fprintln(os.Stderr, "usage: govc check|fn|loops|ssa|baseline ...")
		os.Exit(2)
	}
	if v := os.Getenv("GOVC_REPO"); v != "" {
		repoDir = v
	}
	if v := os.Getenv("GOVC_VERIF"); v != "" {
		verifDir = v
		outDir = v
	}
	if v := os.Getenv("GOVC_OUT"); v != "" {
		outDir = v
	}
	switch os.Args[1] {
	case "check":
		os.Exit(cmdCheck(os.Args[2:]))
	case "fn":
		os.Exit(cmdFn(os.Args[2:]))
	case "loops", "ssa":
		os.Exit(cmdInspect(os.Args[1], os.Args[2:]))
	case "baseline":
		os.Exit(cmdBaseline(os.Args[2:]))
	case "ws":
		// govc ws <funcsuffix>: print the syntactic write set of a function
		sess, err := loadSession("")
		if err != nil {
			fmt.Println(err)
			os.Exit(2)
		}
		for mod, w := range sess.worlds {
			for _, k := range sortedKeys(w.Funcs) {
				if strings.HasSuffix(k, os.Args[2]) {
					e := newExec(w, sess.ss[mod], w.Funcs[k], &FuncSpec{})
					ws := e.writeSet(w.Funcs[k])
					fmt.Println(k, sortedKeys(ws))
					if ws[wsAll] {
						for _, b := range w.Funcs[k].Blocks {
							for _, in := range b.Instrs {
								x := map[string]bool{}
								e.instrWrites(w.Funcs[k], in, x)
								if x[wsAll] {
									fmt.Println("   ALL from:", in, "at", w.pos(in.Pos()))
								}
							}
						}
					}
				}
			}
		}
		os.Exit(0)
	case "harness":
		// govc harness <prop>: run the replay harnesses of a property
		var defs []harnessDef
		loadJSON(filepath.Join(verifDir, "replay", "index.json"), &defs)
		rc := 0
		for _, d := range defs {
			if len(os.Args) > 2 && d.Property != os.Args[2] {
				continue
			}
			out, fails := runHarness(d)
			fmt.Println(tail(out, 3000))
			if len(fails) > 0 {
				rc = 1
			}
		}
		os.Exit(rc)
	case "replay":
		fl := flag.NewFlagSet("replay", flag.ExitOnError)
		fl.String("prop", "", "property id")
		fl.Parse(os.Args[2:])
		for _, p := range fl.Args() {
			b, err := os.ReadFile(p)
			if err != nil {
				fmt.Println(err)
				os.Exit(2)
			}
			fmt.Println(string(b))
		}
		os.Exit(0)
	default:
		fmt.Fprintln(os.Stderr, "unknown command", os.Args[1])
		os.Exit(2)
	}
}

func cmdInspect(what string, args []string) int {
	s, err := loadSession("")
	if err != nil {
		fmt.Fprintln(os.Stderr, err)
		return 2
	}
	defer s.Close()
	for _, w := range s.worlds {
		for _, k := range sortedKeys(w.Funcs) {
			if len(args) > 0 && !strings.HasSuffix(k, args[0]) {
				continue
			}
			if !strings.Contains(k, "licenseclassifier") {
				continue
			}
			fn := w.Funcs[k]
			if what == "loops" {
				fmt.Printf("%s\n%s", k, describeLoops(w, fn))
			} else {
				fn.WriteTo(os.Stdout)
			}
		}
	}
	return 0
}

// cmdFn verifies the functions whose key ends with the argument and prints
// every obligation (development aid).
func cmdFn(args []string) int {
	fl := flag.NewFlagSet("fn", flag.ExitOnError)
	keep := fl.String("keep", "", "directory to keep SMT files in")
	timeout := fl.Int("t", 10, "solver timeout (s)")
	verbose := fl.Bool("v", false, "print goals")
	nosolve := fl.Bool("nosolve", false, "only generate the SMT files (needs -keep)")
	fl.BoolVar(&debugPanic, "panic", false, "do not recover generator panics")
	fl.Parse(args)
	s, err := loadSession("")
	if err != nil {
		fmt.Fprintln(os.Stderr, err)
		return 2
	}
	defer s.Close()
	rc := 0
	for _, pat := range fl.Args() {
		ts, missing := s.targets("", pat)
		for _, m := range missing {
			fmt.Println("MISSING target:", m)
		}
		for _, t := range ts {
			res := verifyTarget(t)
			if *nosolve {
				os.MkdirAll(*keep, 0o755)
				for _, o := range res.Obls {
					os.WriteFile(filepath.Join(*keep, sanitize(o.Name)+".smt2"), []byte(o.render()), 0o644)
				}
				continue
			}
			solveAll(res.Obls, solveOpts{timeout: *timeout, workers: runtime.NumCPU(), keepDir: *keep})
			fmt.Printf("== %s (%s) loops=%d\n", res.Key, res.Pos, res.Loops)
			if res.Err != "" {
				fmt.Println("   ERROR:", res.Err)
				rc = 1
			}
			for _, e := range res.SpecErrs {
				fmt.Println("   SPEC-ERROR:", e)
				rc = 1
			}
			for _, n := range res.Notes {
				fmt.Println("   note:", n)
			}
			for _, o := range res.Obls {
				mark := "ok  "
				if o.Status != "discharged" {
					mark = "FAIL"
					if o.Soft {
						mark = "soft"
					} else {
						rc = 1
					}
				}
				if o.Status == "discharged" && !*verbose {
					continue
				}
				fmt.Printf("   %s %-60s %-10s %-8s %5.2fs %s  %s\n", mark, strings.TrimPrefix(o.Name, res.Key), o.Status, o.Backend, o.Time, o.Pos, o.Desc)
				if o.Status != "discharged" {
					fmt.Printf("        answers: %v\n", o.Answers)
				}
			}
			n, d := 0, 0
			for _, o := range res.Obls {
				if o.Soft {
					continue
				}
				n++
				if o.Status == "discharged" {
					d++
				}
			}
			fmt.Printf("   obligations=%d discharged=%d\n", n, d)
		}
	}
	return rc
}

// ---------------------------------------------------------------- check

type KnownFinding struct {
	Property   string `json:"property"`
	Obligation string `json:"obligation"`
	What       string `json:"what"`
	Witness    string `json:"witness,omitempty"`
	Status     string `json:"status"` // open | fixed
	Commit     string `json:"commit,omitempty"`
}

type PropMeta struct {
	ID         string   `json:"id"`
	NotDecided []string `json:"not_decided"`
	Assumes    []string `json:"assumptions"`
	Meta       []string `json:"meta_theorems"`
}

func loadJSON(path string, v interface{}) error {
	b, err := os.ReadFile(path)
	if err != nil {
		return err
	}
	return json.Unmarshal(b, v)
}

func cmdCheck(args []string) int {
	fl := flag.NewFlagSet("check", flag.ExitOnError)
	prop := fl.String("prop", "", "property id")
	tier := fl.String("tier", "quick", "quick|thorough")
	fl.Parse(args)
	if *prop == "" {
		fmt.Fprintln(os.Stderr, "need -prop")
		return 2
	}
	t0 := time.Now()
	rep := runProperty(*prop, *tier)
	rep.Wall = time.Since(t0).Seconds()
	writeEvidence(rep)
	for _, l := range rep.Lines {
		fmt.Println(l)
	}
	fmt.Printf("property=%s tier=%s functions=%d obligations=%d discharged=%d known=%d undecided=%d soft_open=%d violations=%d solver_s=%.1f wall_s=%.1f\n",
		rep.Prop, rep.Tier, len(rep.Funcs), rep.Obligations, rep.Discharged, rep.Known, len(rep.Undecided), rep.SoftOpen, rep.Violations, rep.SolverS, rep.Wall)
	for _, sl := range rep.Slow {
		fmt.Println("slow:", sl)
	}
	if rep.Violations > 0 || rep.Fatal != "" {
		if rep.Fatal != "" {
			fmt.Println("FATAL:", rep.Fatal)
		}
		return 1
	}
	return 0
}

func cmdBaseline(args []string) int {
	fl := flag.NewFlagSet("baseline", flag.ExitOnError)
	fl.Parse(args)
	base := map[string][]string{}
	path := filepath.Join(verifDir, "baseline", "obligations.json")
	loadJSON(path, &base)
	props := fl.Args()
	for _, p := range props {
		rep := runPropertyRaw(p, "quick", true)
		if rep.Fatal != "" {
			fmt.Println("FATAL", p, rep.Fatal)
			return 1
		}
		if len(rep.Broken) > 0 {
			// never shrink the baseline because the generator failed
			for k, v := range rep.Broken {
				fmt.Printf("ERROR %s: %s\n", k, v)
			}
			fmt.Printf("%s: baseline NOT written (generator or contract errors above)\n", p)
			return 1
		}
		// a claim is (function, obligation kind[:clause]); it enters the
		// baseline when every instance generated for it discharges
		ok := map[string]bool{}
		for _, o := range rep.All {
			if o.Soft {
				continue
			}
			c := claimName(o.Name)
			if o.Status != "discharged" {
				ok[c] = false
			} else if _, seen := ok[c]; !seen {
				ok[c] = true
			}
		}
		var names []string
		for c, good := range ok {
			if good {
				names = append(names, c)
			}
		}
		sort.Strings(names)
		base[p] = names
		fmt.Printf("%s: %d claims in baseline (%d undecided, %d known)\n", p, len(names), len(rep.Undecided), rep.Known)
	}
	os.MkdirAll(filepath.Dir(path), 0o755)
	b, _ := json.MarshalIndent(base, "", " ")
	if err := os.WriteFile(path, b, 0o644); err != nil {
		fmt.Println(err)
		return 1
	}
	return 0
}
