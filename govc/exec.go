package main

import (
	"fmt"
	"go/token"
	"go/types"
	"sort"
	"strings"

	"golang.org/x/tools/go/ssa"
)

// Exec verifies one function under contract.
type Exec struct {
	w         *World
	ss        *SpecSet
	ctx       *Ctx
	fn        *ssa.Function
	spec      *FuncSpec
	key       string
	heapInfos map[string]*heapInfo
	nextRef0  string
	entry     *State
	obCount   map[string]int
	notes     []string // unsupported constructs met (havoced)
	assumed   map[string]bool
	depth     int
	params    map[string]Val // entry values of parameters (old(p))
	modset    map[string][]modLoc // function-level modifies, by heap
	modAll    bool
	lockHeld  string
	inlineStack []string
	closureIDs map[string]*Closure
	epochs     int
	cardDone   map[string]bool
	typeTags   map[string]int
	boxAx      map[string]bool
	globals    []string
	qn         int
	specErrors []string
	usedSpecs  map[string]*FuncSpec
	wsCache    map[*ssa.Function]map[string]bool
	globalByRef map[string]*ssa.Global
	epochFrames map[int]*epochFrame
	noFrameHeaps map[string]bool
	stateSeq   int
	boxClosures map[string]*Closure
	topFrame   *frame
	curCallFrame *frame
	curCallArg0  ssa.Value
	curCall      *ssa.CallCommon
	curStoreVal  *Val
	onlyProps    []string
	defaultSpecs map[string]*FuncSpec
	entryFacts bool
	witnesses  map[string]Val
}

type modLoc struct {
	ref  string // object ref term
	cond string // condition under which the location may be modified
	all  bool
	pred func(r string) string
}

// frame is one activation: the verified function or an inlined callee.
type frame struct {
	fn     *ssa.Function
	vals   map[ssa.Value]Val
	spec   *FuncSpec
	prefix string
	loops  *loopInfo
	locals map[string][]*ssa.Alloc
	rets   []retState
	params []Val
	rangeGhost map[*ssa.Range]string
	defers     []deferred
	onReturn   func(st *State, res []Val, pos token.Pos)
	boxed      map[string][]Val
	edgePC     map[[2]*ssa.BasicBlock]string
	entrySt    *State
	entryParams map[string]Val
	captured   map[string]Val
	loopModChecks map[int]bool
	rangeHdr   map[*ssa.Range]*ssa.BasicBlock
	rangeMap   map[*ssa.Range]*types.Map
	cur        *ssa.BasicBlock
}

func (fr *frame) specCallGhost(callee string) (map[string]Expr, bool) {
	if fr.spec == nil || fr.spec.CallGhost == nil {
		return nil, false
	}
	m, ok := fr.spec.CallGhost[callee]
	return m, ok
}

type retState struct {
	st  *State
	res []Val
}

func (e *Exec) note(format string, args ...interface{}) {
	s := fmt.Sprintf(format, args...)
	for _, n := range e.notes {
		if n == s {
			return
		}
	}
	e.notes = append(e.notes, s)
}

func (e *Exec) trust(s string) { e.assumed[s] = true }

// oblige records a proof obligation under the current path condition and then
// assumes it.
func (e *Exec) oblige(fr *frame, st *State, kind, desc string, pos token.Pos, goal string) *Obligation {
	if st.dead || st.pc == "false" {
		return nil
	}
	base := kind
	if k := strings.Index(kind, ":"); k >= 0 {
		base = kind[:k]
	}
	if e.spec != nil && (e.spec.Skip[base] || e.spec.Skip[kind]) {
		return nil
	}
	if goal == "true" {
		// trivially true obligations are still counted: they are checked by
		// the generator itself
	}
	full := fr.prefix + "#" + kind
	e.obCount[full]++
	name := fmt.Sprintf("%s@%d", full, e.obCount[full])
	parts := splitGoal(goal)
	var first *Obligation
	nh := len(e.ctx.hyps)
	for i, g := range parts {
		o := &Obligation{Name: name, Kind: base, Func: e.key, Pos: e.w.pos(pos), Desc: desc,
			nhyps: nh, pc: st.pc, goal: g, ctx: e.ctx, state: st.id}
		if len(parts) > 1 {
			o.Name = fmt.Sprintf("%s.%d", name, i+1)
			o.Desc = fmt.Sprintf("%s [conjunct %d of %d]", desc, i+1, len(parts))
		}
		if e.spec != nil {
			o.Props = e.spec.Props
		}
		if e.onlyProps != nil {
			o.Props = e.onlyProps
			o.Restricted = true
		}
		o.Group = e.ctx.group
		o.Soft = base == "ovf"
		e.ctx.obls = append(e.ctx.obls, o)
		if first == nil {
			first = o
		}
	}
	if goal != "false" {
		// continue under the assumption that the obligation holds; an
		// obligation that is literally `false` marks an unmodelled construct and
		// must not make the rest of the function vacuously provable
		e.ctx.assume(imp(st.pc, goal))
	}
	return first
}

// ---------------------------------------------------------------- loops

type loopInfo struct {
	headers  []*ssa.BasicBlock          // in ordinal order
	ordinal  map[*ssa.BasicBlock]int    // 1-based
	body     map[*ssa.BasicBlock]map[*ssa.BasicBlock]bool
	backEdge map[[2]*ssa.BasicBlock]bool
	order    []*ssa.BasicBlock // topological order ignoring back edges
}

func analyseLoops(fn *ssa.Function) *loopInfo {
	li := &loopInfo{ordinal: map[*ssa.BasicBlock]int{}, body: map[*ssa.BasicBlock]map[*ssa.BasicBlock]bool{},
		backEdge: map[[2]*ssa.BasicBlock]bool{}}
	if len(fn.Blocks) == 0 {
		return li
	}
	reach := map[*ssa.BasicBlock]bool{}
	var dfs func(b *ssa.BasicBlock)
	dfs = func(b *ssa.BasicBlock) {
		reach[b] = true
		for _, s := range b.Succs {
			if !reach[s] {
				dfs(s)
			}
		}
	}
	dfs(fn.Blocks[0])
	hs := map[*ssa.BasicBlock]bool{}
	for _, b := range fn.Blocks {
		if !reach[b] {
			continue
		}
		for _, s := range b.Succs {
			if s.Dominates(b) {
				li.backEdge[[2]*ssa.BasicBlock{b, s}] = true
				hs[s] = true
			}
		}
	}
	for _, b := range fn.Blocks {
		if hs[b] {
			li.headers = append(li.headers, b)
		}
	}
	sort.Slice(li.headers, func(i, j int) bool { return li.headers[i].Index < li.headers[j].Index })
	for i, h := range li.headers {
		li.ordinal[h] = i + 1
		body := map[*ssa.BasicBlock]bool{h: true}
		var stack []*ssa.BasicBlock
		for _, p := range h.Preds {
			if li.backEdge[[2]*ssa.BasicBlock{p, h}] && !body[p] {
				body[p] = true
				stack = append(stack, p)
			}
		}
		for len(stack) > 0 {
			b := stack[len(stack)-1]
			stack = stack[:len(stack)-1]
			for _, p := range b.Preds {
				if !body[p] && reach[p] {
					body[p] = true
					stack = append(stack, p)
				}
			}
		}
		li.body[h] = body
	}
	// topological order (Kahn) ignoring back edges
	indeg := map[*ssa.BasicBlock]int{}
	for _, b := range fn.Blocks {
		if !reach[b] {
			continue
		}
		for _, s := range b.Succs {
			if !li.backEdge[[2]*ssa.BasicBlock{b, s}] {
				indeg[s]++
			}
		}
	}
	var ready []*ssa.BasicBlock
	ready = append(ready, fn.Blocks[0])
	for len(ready) > 0 {
		sort.Slice(ready, func(i, j int) bool { return ready[i].Index < ready[j].Index })
		b := ready[0]
		ready = ready[1:]
		li.order = append(li.order, b)
		for _, s := range b.Succs {
			if li.backEdge[[2]*ssa.BasicBlock{b, s}] {
				continue
			}
			indeg[s]--
			if indeg[s] == 0 {
				ready = append(ready, s)
			}
		}
	}
	return li
}

// ---------------------------------------------------------------- running a body

func (e *Exec) newFrame(fn *ssa.Function, spec *FuncSpec, prefix string) *frame {
	fr := &frame{fn: fn, vals: map[ssa.Value]Val{}, spec: spec, prefix: prefix, loops: analyseLoops(fn),
		locals: map[string][]*ssa.Alloc{}, rangeGhost: map[*ssa.Range]string{}, boxed: map[string][]Val{},
		edgePC: map[[2]*ssa.BasicBlock]string{}, entryParams: map[string]Val{}, captured: map[string]Val{}, loopModChecks: map[int]bool{},
		rangeHdr: map[*ssa.Range]*ssa.BasicBlock{}, rangeMap: map[*ssa.Range]*types.Map{}}
	for _, b := range fn.Blocks {
		for _, in := range b.Instrs {
			if a, ok := in.(*ssa.Alloc); ok && a.Comment != "" {
				fr.locals[a.Comment] = append(fr.locals[a.Comment], a)
			}
		}
	}
	return fr
}

type edgeState struct {
	from *ssa.BasicBlock
	st   *State
}

// runBody symbolically executes fn from state st with the given arguments and
// free-variable bindings, returning the states at its return instructions.
func (e *Exec) runBody(fr *frame, st *State, args []Val, bindings []Val) []retState {
	fn := fr.fn
	for i, p := range fn.Params {
		if i < len(args) {
			v := args[i]
			v.GoT = p.Type()
			fr.vals[p] = v
		}
	}
	for i, fv := range fn.FreeVars {
		if i < len(bindings) {
			fr.vals[fv] = bindings[i]
		}
	}
	in := map[*ssa.BasicBlock][]edgeState{}
	li := fr.loops
	if len(fn.Blocks) == 0 {
		return nil
	}
	in[fn.Blocks[0]] = []edgeState{{nil, st}}
	headers := map[*ssa.BasicBlock]*hdrT{}
	for _, b := range li.order {
		edges := in[b]
		var cur *State
		if ord, isHeader := li.ordinal[b]; isHeader {
			// entry edges: invariant must hold
			var entries []*State
			for _, es := range edges {
				entries = append(entries, es.st)
			}
			pre := e.mergeStates(entries)
			e.checkInvariants(fr, pre, ord, "inv-entry", b)
			cur = e.havocLoop(fr, pre, b, ord)
			h := &hdrT{st: cur.clone()}
			e.assumeInvariants(fr, cur, ord, b)
			for _, c := range e.loopClauses(fr, ord, "decreases") {
				env := e.specEnv(fr, cur, b)
				v := env.eval(c.E)
				h.decs = append(h.decs, v.T)
			}
			headers[b] = h
		} else {
			var entries []*State
			for _, es := range edges {
				entries = append(entries, es.st)
			}
			cur = e.mergeStates(entries)
		}
		// execute instructions
		fr.cur = b
		for _, instr := range b.Instrs {
			if cur.dead {
				break
			}
			e.ctx.tag = cur.id
			e.step(fr, cur, instr)
		}
		e.ctx.tag = cur.id
		if cur.dead {
			continue
		}
		// successors
		last := b.Instrs[len(b.Instrs)-1]
		switch t := last.(type) {
		case *ssa.If:
			c := e.val(fr, t.Cond)
			ct := c.T
			if c.Bad != "" || ct == "" {
				ct = e.ctx.fresh("cond", sBool)
			}
			s1 := e.fork(cur)
			e.ctx.tag = s1.id
			s1.pc = e.namePC(and(cur.pc, ct))
			s2 := e.fork(cur)
			e.ctx.tag = s2.id
			s2.pc = e.namePC(and(cur.pc, not(ct)))
			e.flow(fr, in, headers, b, b.Succs[0], s1)
			e.flow(fr, in, headers, b, b.Succs[1], s2)
		case *ssa.Jump:
			e.flow(fr, in, headers, b, b.Succs[0], cur)
		}
	}
	return fr.rets
}

func (e *Exec) namePC(t string) string {
	if len(t) < 40 {
		return t
	}
	c := e.ctx.fresh("pc", sBool)
	e.ctx.assume(eq(c, t))
	return c
}

type hdrT struct {
	decs []string
	st   *State
}

func (e *Exec) flow(fr *frame, in map[*ssa.BasicBlock][]edgeState, headers map[*ssa.BasicBlock]*hdrT, from, to *ssa.BasicBlock, st *State) {
	if st.dead || st.pc == "false" {
		return
	}
	e.ctx.tag = st.id
	li := fr.loops
	if li.backEdge[[2]*ssa.BasicBlock{from, to}] {
		ord := li.ordinal[to]
		e.checkInvariants(fr, st, ord, "inv-keep", to)
		h := headers[to]
		if h != nil {
			for i, c := range e.loopClauses(fr, ord, "decreases") {
				env := e.specEnv(fr, st, to)
				now := env.eval(c.E)
				goal := and(le("0", h.decs[i]), lt(now.T, h.decs[i]))
				e.oblige(fr, st, fmt.Sprintf("dec:%d", ord), "variant decreases: "+c.Src, firstPos(to), goal)
			}
		}
		return
	}
	// `loop N exit e`: e must hold on every edge that leaves loop N (normal
	// termination, break, goto); used to state that an iteration is exhaustive
	for _, h := range li.headers {
		if li.body[h][from] && !li.body[h][to] {
			ord := li.ordinal[h]
			for _, c := range e.loopClauses(fr, ord, "exit") {
				env := e.specEnv(fr, st, h)
				v := env.eval(c.E)
				e.oblige(fr, st, fmt.Sprintf("loop-exit:%d", ord), "on leaving loop: "+c.Src, firstPos(to), v.T)
			}
		}
	}
	fr.edgePC[[2]*ssa.BasicBlock{from, to}] = st.pc
	in[to] = append(in[to], edgeState{from, st})
}

func firstPos(b *ssa.BasicBlock) token.Pos {
	for _, in := range b.Instrs {
		if in.Pos().IsValid() {
			return in.Pos()
		}
	}
	return token.NoPos
}

func (e *Exec) loopClauses(fr *frame, ord int, kind string) []*Clause {
	if fr.spec == nil {
		return nil
	}
	var out []*Clause
	for _, c := range fr.spec.Loops[ord] {
		if c.Kind == kind {
			out = append(out, c)
		}
	}
	return out
}

// autoRangeInv: for a compiler-generated `for ... := range slice` loop the
// hidden index satisfies -1 <= rangeindex < len(slice) at the loop head.
func (e *Exec) autoRangeInv(fr *frame, st *State, hb *ssa.BasicBlock) string {
	if hb.Comment != "rangeindex.loop" {
		return ""
	}
	var cell *ssa.Alloc
	var lenv ssa.Value
	for _, in := range hb.Instrs {
		switch x := in.(type) {
		case *ssa.Store:
			if a, ok := x.Addr.(*ssa.Alloc); ok && a.Comment == "rangeindex" {
				cell = a
			}
		case *ssa.BinOp:
			if x.Op == token.LSS {
				lenv = x.Y
			}
		}
	}
	if cell == nil || lenv == nil {
		return ""
	}
	ri, ok := st.cells[cell]
	if !ok || ri.T == "" {
		return ""
	}
	lv := e.val(fr, lenv)
	if lv.T == "" || lv.Bad != "" {
		return ""
	}
	return and(le("(- 1)", ri.T), lt(ri.T, lv.T))
}

func (e *Exec) checkInvariants(fr *frame, st *State, ord int, kind string, hb *ssa.BasicBlock) {
	if g := e.autoRangeInv(fr, st, hb); g != "" {
		e.oblige(fr, st, fmt.Sprintf("%s:%d", kind, ord), "range index stays within -1 .. len-1 (automatic)", firstPos(hb), g)
	}
	for _, c := range e.loopClauses(fr, ord, "invariant") {
		env := e.specEnv(fr, st, hb)
		v := env.eval(c.E)
		e.ctx.group = c.Group
		e.oblige(fr, st, fmt.Sprintf("%s:%d", kind, ord), "loop invariant: "+c.Src, firstPos(hb), v.T)
		e.ctx.group = ""
	}
}

func (e *Exec) assumeInvariants(fr *frame, st *State, ord int, hb *ssa.BasicBlock) {
	if g := e.autoRangeInv(fr, st, hb); g != "" {
		e.ctx.assume(imp(st.pc, g))
	}
	for _, c := range e.loopClauses(fr, ord, "invariant") {
		env := e.specEnv(fr, st, hb)
		v := env.eval(c.E)
		e.ctx.group = c.Group
		e.ctx.assume(imp(st.pc, v.T))
		e.ctx.group = ""
	}
}

var _ = types.Typ
