package main

import (
	"sort"
	"fmt"
	"go/token"
	"go/types"
	"strings"

	"golang.org/x/tools/go/ssa"
)

// val returns the symbolic value of an SSA value in the current frame.
func (e *Exec) val(fr *frame, v ssa.Value) Val {
	switch x := v.(type) {
	case *ssa.Const:
		t := x.Type()
		if x.Value == nil {
			return Val{T: e.ctx.zero(t), S: e.ctx.sortOf(t), GoT: t}
		}
		return Val{T: e.ctx.constTerm(x.Value, t), S: e.ctx.sortOf(t), GoT: t}
	case *ssa.Function:
		return Val{Clo: &Closure{Fn: x}, GoT: x.Type(), S: sInt}
	case *ssa.Global:
		return Val{T: e.globalRef(x), S: sInt, GoT: x.Type()}
	case *ssa.Builtin:
		return Val{Bad: "builtin " + x.Name()}
	}
	if r, ok := fr.vals[v]; ok {
		return r
	}
	return Val{Bad: "undefined SSA value " + v.Name(), GoT: v.Type(), S: e.ctx.sortOf(v.Type())}
}

// constGlobal: g is assigned only by its package initialiser and its address
// is used for nothing but loads, so its value is a constant of the program.
func (e *Exec) constGlobal(g *ssa.Global) bool {
	if v, ok := e.w.constGlobals[g]; ok {
		return v
	}
	ok := true
	for _, m := range g.Pkg.Members {
		fn, isFn := m.(*ssa.Function)
		if !isFn {
			continue
		}
		fns := append([]*ssa.Function{fn}, fn.AnonFuncs...)
		for _, f := range fns {
			isInit := fn.Name() == "init" || strings.HasPrefix(fn.Name(), "init#")
			for _, b := range f.Blocks {
				for _, in := range b.Instrs {
					for _, op := range in.Operands(nil) {
						if *op != ssa.Value(g) {
							continue
						}
						switch x := in.(type) {
						case *ssa.UnOp:
						case *ssa.DebugRef:
						case *ssa.Store:
							if !(isInit && x.Addr == ssa.Value(g)) {
								ok = false
							}
						default:
							ok = false
						}
					}
				}
			}
		}
	}
	// methods of types of the package
	for _, f := range e.w.Funcs {
		if f.Pkg != g.Pkg || f.Signature.Recv() == nil {
			continue
		}
		for _, b := range f.Blocks {
			for _, in := range b.Instrs {
				for _, op := range in.Operands(nil) {
					if *op == ssa.Value(g) {
						switch in.(type) {
						case *ssa.UnOp, *ssa.DebugRef:
						default:
							ok = false
						}
					}
				}
			}
		}
	}
	if !g.Object().Exported() {
		// unexported: other packages cannot reach it
	} else {
		for _, f := range e.w.Funcs {
			if f.Pkg == g.Pkg || f.Pkg == nil {
				continue
			}
			for _, b := range f.Blocks {
				for _, in := range b.Instrs {
					for _, op := range in.Operands(nil) {
						if *op == ssa.Value(g) {
							switch in.(type) {
							case *ssa.UnOp, *ssa.DebugRef:
							default:
								ok = false
							}
						}
					}
				}
			}
		}
	}
	e.w.constGlobals[g] = ok
	return ok
}

func (e *Exec) globalRef(g *ssa.Global) string {
	name := "glob$" + sanitize(g.Pkg.Pkg.Name()+"."+g.Name())
	e.globalByRef[name] = g
	if _, ok := e.ctx.declared[name]; !ok {
		e.ctx.declare(name, sInt)
		e.ctx.assumeGlobal(and(lt("0", name), lt(name, e.nextRef0)))
		for _, o := range e.globals {
			e.ctx.assumeGlobal(not(eq(o, name)))
		}
		e.globals = append(e.globals, name)
	}
	return name
}

func (e *Exec) set(fr *frame, v ssa.Value, val Val) {
	if val.GoT == nil {
		val.GoT = v.Type()
	}
	// name long terms so that verification conditions stay small
	if len(val.T) > 60 && val.S != "" && val.Bad == "" && val.Addr == nil && val.Clo == nil {
		c := e.ctx.fresh(v.Name(), val.S)
		e.ctx.assume(eq(c, val.T))
		val.T = c
	}
	for i := range val.Tup {
		t := &val.Tup[i]
		if len(t.T) > 60 && t.S != "" && t.Bad == "" && t.Addr == nil && t.Clo == nil {
			c := e.ctx.fresh(v.Name(), t.S)
			e.ctx.assume(eq(c, t.T))
			t.T = c
		}
	}
	fr.vals[v] = val
}

// tval: value as a term of the right sort; unmodelled values are havoced.
func (e *Exec) tval(fr *frame, st *State, v ssa.Value) Val {
	x := e.val(fr, v)
	if x.Bad != "" || (x.T == "" && x.Addr == nil && x.Clo == nil && len(x.Tup) == 0) {
		if x.Bad != "" {
			e.note("%s: %s: value havoced", e.w.pos(v.Pos()), x.Bad)
		}
		return e.havocVal(st, v.Type(), "havoc")
	}
	if x.T == "" && (x.Clo != nil || x.Addr != nil) {
		return e.termOf(st, x, v.Type())
	}
	return x
}

func (e *Exec) step(fr *frame, st *State, instr ssa.Instruction) {
	pos := instr.Pos()
	switch in := instr.(type) {
	case *ssa.DebugRef:
	case *ssa.Alloc:
		e.stepAlloc(fr, st, in)
	case *ssa.Store:
		addr := e.val(fr, in.Addr)
		v := e.val(fr, in.Val)
		if v.Bad != "" {
			v = e.tval(fr, st, in.Val)
		}
		pt := in.Addr.Type().Underlying().(*types.Pointer).Elem()
		p := pos
		if !p.IsValid() {
			p = in.Addr.Pos()
		}
		var oldV Val
		al, isAl := in.Addr.(*ssa.Alloc)
		if isAl && fr == e.topFrame && fr.spec != nil && len(fr.spec.GhostSets) > 0 {
			oldV = st.cells[al]
		}
		e.storePtr(fr, st, addr, pt, v, p)
		if isAl && fr == e.topFrame && fr.spec != nil && len(fr.spec.GhostSets) > 0 {
			if nv, ok := st.cells[al]; ok {
				e.ghostOnStore(fr, st, al, oldV, nv, in.Block())
			}
		}
	case *ssa.UnOp:
		e.stepUnOp(fr, st, in)
	case *ssa.BinOp:
		e.set(fr, in, e.binop(fr, st, in.Op, e.tval(fr, st, in.X), e.tval(fr, st, in.Y), in.X.Type(), in.Type(), pos))
	case *ssa.FieldAddr:
		x := e.val(fr, in.X)
		pt := in.X.Type().Underlying().(*types.Pointer).Elem()
		stt := pt.Underlying().(*types.Struct)
		ft := stt.Field(in.Field).Type()
		if x.Bad != "" {
			e.set(fr, in, Val{Bad: x.Bad})
			return
		}
		if x.Addr != nil {
			e.set(fr, in, Val{Addr: &Addr{Kind: aSub, Base: x.Addr, Fld: in.Field, ElemT: ft}})
			return
		}
		e.oblige(fr, st, "nilptr", "nil pointer dereference (field "+stt.Field(in.Field).Name()+")", pos, not(eq(x.T, "0")))
		if isStruct(ft) {
			e.set(fr, in, Val{T: app("emb", x.T, num(int64(in.Field))), S: sInt})
			return
		}
		e.set(fr, in, Val{Addr: &Addr{Kind: aField, Ref: x.T, Owner: pt, Fld: in.Field, ElemT: ft}})
	case *ssa.Field:
		x := e.tval(fr, st, in.X)
		si := e.ctx.structSort(in.X.Type())
		ft := in.X.Type().Underlying().(*types.Struct).Field(in.Field).Type()
		e.set(fr, in, Val{T: si.get(x.T, in.Field), S: e.ctx.sortOf(ft)})
	case *ssa.IndexAddr:
		e.stepIndexAddr(fr, st, in)
	case *ssa.Index:
		x := e.tval(fr, st, in.X)
		i := e.tval(fr, st, in.Index)
		switch u := in.X.Type().Underlying().(type) {
		case *types.Array:
			e.oblige(fr, st, "index", "array index in range", pos, and(le("0", i.T), lt(i.T, num(u.Len()))))
			e.set(fr, in, Val{T: sel(x.T, i.T), S: e.ctx.sortOf(u.Elem())})
		case *types.Basic: // string
			e.oblige(fr, st, "index", "string index in range", pos, and(le("0", i.T), lt(i.T, app("slen", x.T))))
			e.set(fr, in, Val{T: app("sat", x.T, i.T), S: sInt})
		default:
			e.set(fr, in, e.havocVal(st, in.Type(), "index"))
		}
	case *ssa.Lookup:
		e.stepLookup(fr, st, in)
	case *ssa.MapUpdate:
		e.stepMapUpdate(fr, st, in)
	case *ssa.MakeMap:
		mt := in.Type().Underlying().(*types.Map)
		r := e.alloc(st)
		md, mv := e.mapHeaps(mt)
		ks := e.ctx.sortOf(mt.Key())
		e.setHeap(st, md, sto(e.heapTerm(st, md), r, fmt.Sprintf("((as const %s) false)", arraySort(ks, sBool))))
		e.setHeap(st, mv, sto(e.heapTerm(st, mv), r, e.constArray(ks, mt.Elem())))
		e.set(fr, in, Val{T: r, S: sInt})
	case *ssa.MakeSlice:
		l := e.tval(fr, st, in.Len)
		c := e.tval(fr, st, in.Cap)
		e.oblige(fr, st, "makeslice", "0 <= len <= cap in make", pos, and(le("0", l.T), le(l.T, c.T)))
		el := in.Type().Underlying().(*types.Slice).Elem()
		r := e.alloc(st)
		h := e.elemHeap(el)
		e.setHeap(st, h, sto(e.heapTerm(st, h), r, e.ctx.zero(types.NewArray(el, 0))))
		e.ctx.assume(imp(st.pc, lt(c.T, "281474976710656")))
		e.set(fr, in, Val{T: mkSlice(r, "0", l.T, c.T), S: sSlice})
	case *ssa.MakeChan:
		r := e.alloc(st)
		// whoever makes a channel holds the unique permission to close it
		e.setHeap(st, "G$mayclose", sto(e.tlHeap(st, "G$mayclose"), r, "1"))
		// ... and all of its buffer slots
		size := e.tval(fr, st, in.Size)
		e.oblige(fr, st, "makechan", "channel size is not negative", pos, le("0", size.T))
		e.setHeap(st, "G$chcredit", sto(e.tlHeap(st, "G$chcredit"), r, size.T))
		e.set(fr, in, Val{T: r, S: sInt})
	case *ssa.MakeClosure:
		cl := &Closure{Fn: in.Fn.(*ssa.Function)}
		for _, b := range in.Bindings {
			cl.Bindings = append(cl.Bindings, e.val(fr, b))
		}
		e.set(fr, in, Val{Clo: cl, S: sInt})
	case *ssa.MakeInterface:
		x := e.tval(fr, st, in.X)
		e.set(fr, in, Val{T: app("mk_iface", num(int64(e.typeTag(in.X.Type()))), e.box(x, in.X.Type())), S: sIface})
	case *ssa.ChangeInterface:
		e.set(fr, in, e.tval(fr, st, in.X))
	case *ssa.ChangeType:
		x := e.val(fr, in.X)
		x.GoT = in.Type()
		e.set(fr, in, x)
	case *ssa.Convert:
		e.set(fr, in, e.convert(fr, st, e.tval(fr, st, in.X), in.X.Type(), in.Type(), pos))
	case *ssa.TypeAssert:
		e.stepTypeAssert(fr, st, in)
	case *ssa.Extract:
		t := e.val(fr, in.Tuple)
		if in.Index < len(t.Tup) {
			e.set(fr, in, t.Tup[in.Index])
		} else {
			e.set(fr, in, e.havocVal(st, in.Type(), "extract"))
		}
	case *ssa.Slice:
		e.stepSlice(fr, st, in)
	case *ssa.Range:
		e.stepRange(fr, st, in)
	case *ssa.Next:
		e.stepNext(fr, st, in)
	case *ssa.Phi:
		e.stepPhi(fr, st, in)
	case *ssa.Call:
		res := e.call(fr, st, &in.Call, in, in.Type(), pos)
		e.set(fr, in, res)
	case *ssa.Defer:
		d := deferred{call: &in.Call, pos: pos}
		for _, a := range in.Call.Args {
			d.args = append(d.args, e.val(fr, a))
		}
		if !in.Call.IsInvoke() {
			d.fnval = e.val(fr, in.Call.Value)
		} else {
			d.fnval = e.val(fr, in.Call.Value)
		}
		if in.Block().Index != 0 {
			e.note("%s: defer outside the entry block: executed unconditionally at exit in this model", e.w.pos(pos))
		}
		fr.defers = append(fr.defers, d)
	case *ssa.RunDefers:
		for i := len(fr.defers) - 1; i >= 0; i-- {
			d := fr.defers[i]
			e.callWith(fr, st, d.call, d.fnval, d.args, types.NewTuple(), d.pos, "defer")
		}
	case *ssa.Go:
		e.stepGo(fr, st, in)
	case *ssa.Send:
		e.stepSend(fr, st, in)
	case *ssa.Select:
		e.note("%s: select: result havoced", e.w.pos(pos))
		e.set(fr, in, e.havocVal(st, in.Type(), "select"))
	case *ssa.Panic:
		e.oblige(fr, st, "panic", "explicit panic is unreachable", pos, "false")
		st.dead = true
	case *ssa.Return:
		var res []Val
		for _, r := range in.Results {
			res = append(res, e.tval(fr, st, r))
		}
		fr.rets = append(fr.rets, retState{st: st.clone(), res: res})
		if fr.onReturn != nil {
			fr.onReturn(st, res, pos)
		}
	case *ssa.If, *ssa.Jump:
	case *ssa.SliceToArrayPointer, *ssa.MultiConvert:
		e.note("%s: unsupported conversion: havoced", e.w.pos(pos))
		e.set(fr, instr.(ssa.Value), e.havocVal(st, instr.(ssa.Value).Type(), "conv"))
	default:
		e.note("%s: unsupported instruction %T: havoced", e.w.pos(pos), instr)
		if v, ok := instr.(ssa.Value); ok {
			e.set(fr, v, e.havocVal(st, v.Type(), "unsupported"))
		}
	}
}

type deferred struct {
	call  *ssa.CallCommon
	fnval Val
	args  []Val
	pos   token.Pos
}

func (e *Exec) stepAlloc(fr *frame, st *State, in *ssa.Alloc) {
	t := in.Type().Underlying().(*types.Pointer).Elem()
	switch {
	case isStruct(t):
		r := e.alloc(st)
		e.storeObj(fr, st, r, t, e.ctx.zero(t), in.Pos(), true)
		e.zeroLocks(st, r, t)
		e.set(fr, in, Val{T: r, S: sInt})
	case isArray(t):
		r := e.alloc(st)
		el := t.Underlying().(*types.Array).Elem()
		h := e.elemHeap(el)
		e.setHeap(st, h, sto(e.heapTerm(st, h), r, e.ctx.zero(t)))
		e.set(fr, in, Val{T: r, S: sInt})
	case !in.Heap:
		st.cells[in] = Val{T: e.ctx.zero(t), S: e.ctx.sortOf(t), GoT: t}
		e.set(fr, in, Val{Addr: &Addr{Kind: aCell, Cell: in, ElemT: t}})
	default:
		r := e.alloc(st)
		h := e.boxHeap(t)
		e.setHeap(st, h, sto(e.heapTerm(st, h), r, e.ctx.zero(t)))
		e.set(fr, in, Val{T: r, S: sInt})
		fr.boxed[in.Comment] = append(fr.boxed[in.Comment], Val{T: r, S: sInt, GoT: in.Type()})
	}
}

func (e *Exec) stepUnOp(fr *frame, st *State, in *ssa.UnOp) {
	pos := in.Pos()
	switch in.Op {
	case token.MUL:
		p := e.val(fr, in.X)
		if !pos.IsValid() {
			pos = in.X.Pos()
		}
		e.set(fr, in, e.loadPtr(fr, st, p, in.Type(), pos))
	case token.NOT:
		x := e.tval(fr, st, in.X)
		e.set(fr, in, Val{T: not(x.T), S: sBool})
	case token.SUB:
		x := e.tval(fr, st, in.X)
		if e.ctx.bv {
			if x.S == sF {
				e.set(fr, in, Val{T: app("fp.neg", x.T), S: sF})
			} else {
				e.set(fr, in, Val{T: app("bvneg", x.T), S: x.S})
			}
			return
		}
		if x.S == sF {
			e.set(fr, in, Val{T: app("f_neg", x.T), S: sF})
		} else {
			e.set(fr, in, Val{T: "(- " + x.T + ")", S: sInt})
		}
	case token.ARROW:
		e.note("%s: channel receive: value havoced", e.w.pos(pos))
		e.recvCredit(fr, st, e.tval(fr, st, in.X).T)
		e.set(fr, in, e.havocVal(st, in.Type(), "recv"))
	default:
		e.set(fr, in, e.havocVal(st, in.Type(), "unop"))
	}
}

func (e *Exec) stepIndexAddr(fr *frame, st *State, in *ssa.IndexAddr) {
	pos := in.Pos()
	x := e.val(fr, in.X)
	i := e.tval(fr, st, in.Index)
	switch u := in.X.Type().Underlying().(type) {
	case *types.Slice:
		if x.Bad != "" || x.T == "" {
			x = e.tval(fr, st, in.X)
		}
		e.oblige(fr, st, "index", "slice index in range", pos, and(le("0", i.T), lt(i.T, slLen(x.T))))
		e.set(fr, in, Val{Addr: &Addr{Kind: aElem, Sl: x.T, Idx: i.T, ElemT: u.Elem()}})
	case *types.Pointer:
		arr := u.Elem().Underlying().(*types.Array)
		e.oblige(fr, st, "index", "array index in range", pos, and(le("0", i.T), lt(i.T, num(arr.Len()))))
		if x.Addr != nil {
			e.set(fr, in, Val{Addr: &Addr{Kind: aArr, Base: x.Addr, Idx: i.T, ElemT: arr.Elem()}})
		} else if x.Bad == "" {
			n := num(arr.Len())
			e.set(fr, in, Val{Addr: &Addr{Kind: aElem, Sl: mkSlice(x.T, "0", n, n), Idx: i.T, ElemT: arr.Elem()}})
		} else {
			e.set(fr, in, Val{Bad: x.Bad})
		}
	default:
		e.set(fr, in, Val{Bad: "IndexAddr on " + in.X.Type().String()})
	}
}

func (e *Exec) mapHas(st *State, mt *types.Map, m, k string) string {
	md, _ := e.mapHeaps(mt)
	return sel(sel(e.heapTerm(st, md), m), k)
}
func (e *Exec) mapLen(st *State, mt *types.Map, m string) string {
	md, _ := e.mapHeaps(mt)
	return app(e.cardFn(e.ctx.sortOf(mt.Key())), sel(e.heapTerm(st, md), m))
}
func (e *Exec) mapGet(st *State, mt *types.Map, m, k string) string {
	_, mv := e.mapHeaps(mt)
	e.heapTerm(st, "MD$"+strings.TrimPrefix(mv, "MV$"))
	return sel(sel(e.heapTerm(st, mv), m), k)
}

func (e *Exec) stepLookup(fr *frame, st *State, in *ssa.Lookup) {
	x := e.tval(fr, st, in.X)
	k := e.tval(fr, st, in.Index)
	switch u := in.X.Type().Underlying().(type) {
	case *types.Map:
		e.mapAccess(fr, st, e.val(fr, in.X), false, in.Pos())
		v := Val{T: e.mapGet(st, u, x.T, k.T), S: e.ctx.sortOf(u.Elem()), GoT: u.Elem()}
		if in.CommaOk {
			ok := Val{T: e.mapHas(st, u, x.T, k.T), S: sBool}
			e.set(fr, in, Val{Tup: []Val{v, ok}})
		} else {
			e.set(fr, in, v)
		}
	default: // string
		e.oblige(fr, st, "index", "string index in range", in.Pos(), and(le("0", k.T), lt(k.T, app("slen", x.T))))
		e.set(fr, in, Val{T: app("sat", x.T, k.T), S: sInt})
	}
}

func (e *Exec) mapCardFacts(st *State, mt *types.Map, m string) {}

func (e *Exec) stepMapUpdate(fr *frame, st *State, in *ssa.MapUpdate) {
	m := e.tval(fr, st, in.Map)
	k := e.tval(fr, st, in.Key)
	v := e.tval(fr, st, in.Value)
	mt := in.Map.Type().Underlying().(*types.Map)
	e.oblige(fr, st, "nilmap", "assignment to entry in nil map", in.Pos(), not(eq(m.T, "0")))
	e.mapAccess(fr, st, e.val(fr, in.Map), true, in.Pos())
	e.mapStore(fr, st, mt, m.T, k.T, v.T, in.Pos())
}

func (e *Exec) mapStore(fr *frame, st *State, mt *types.Map, m, k, v string, pos token.Pos) {
	md, mv := e.mapHeaps(mt)
	e.frameCheck(fr, st, mv, m, pos)
	e.rangeStable(fr, st, mv, m, pos)
	mdt, mvt := e.heapTerm(st, md), e.heapTerm(st, mv)
	e.setHeap(st, md, sto(mdt, m, sto(sel(mdt, m), k, "true")))
	e.setHeap(st, mv, sto(mvt, m, sto(sel(mvt, m), k, v)))
}

func (e *Exec) mapDelete(fr *frame, st *State, mt *types.Map, m, k string, pos token.Pos) {
	md, mv := e.mapHeaps(mt)
	nonnil := not(eq(m, "0"))
	s2 := st.clone()
	s2.pc = and(st.pc, nonnil)
	e.frameCheck(fr, s2, mv, m, pos)
	e.rangeStable(fr, s2, mv, m, pos)
	mdt := e.heapTerm(st, md)
	mvt := e.heapTerm(st, mv)
	e.setHeap(st, md, ite(nonnil, sto(mdt, m, sto(sel(mdt, m), k, "false")), mdt))
	e.setHeap(st, mv, ite(nonnil, sto(mvt, m, sto(sel(mvt, m), k, e.ctx.zero(mt.Elem()))), mvt))
}

// constArray: the array over key sort ks whose every entry is the zero value
// of Go type vt.
func (e *Exec) constArray(ks string, vt types.Type) string {
	vs := e.ctx.sortOf(vt)
	z := e.ctx.zero(vt)
	if vs == sInt || vs == sBool {
		return fmt.Sprintf("((as const %s) %s)", arraySort(ks, vs), z)
	}
	name := "zeromap$" + sanitize(ks) + "$" + sanitize(vs)
	if _, ok := e.ctx.declared[name]; !ok {
		e.ctx.declare(name, arraySort(ks, vs))
		e.ctx.assumeGlobal(fmt.Sprintf("(forall ((k %s)) (! (= (select %s k) %s) :pattern ((select %s k))))", ks, name, z, name))
	}
	return name
}

func (e *Exec) stepSlice(fr *frame, st *State, in *ssa.Slice) {
	pos := in.Pos()
	x := e.val(fr, in.X)
	opt := func(v ssa.Value, def string) string {
		if v == nil {
			return def
		}
		return e.tval(fr, st, v).T
	}
	switch u := in.X.Type().Underlying().(type) {
	case *types.Slice:
		if x.Bad != "" || x.T == "" {
			x = e.tval(fr, st, in.X)
		}
		lo := opt(in.Low, "0")
		hi := opt(in.High, slLen(x.T))
		mx := opt(in.Max, slCap(x.T))
		e.oblige(fr, st, "slice", "slice bounds in range", pos, and(le("0", lo), le(lo, hi), le(hi, mx), le(mx, slCap(x.T))))
		res := mkSlice(slRef(x.T), add(slOff(x.T), lo), sub(hi, lo), sub(mx, lo))
		if lo != "0" || e.uses("SUBSLICE-PREFIX") {
			// element j of s[lo:hi] is element lo+j of s, in every heap
			rc := e.ctx.fresh("subslice", sSlice)
			e.ctx.assume(eq(rc, res))
			res = rc
			hs := arraySort(sInt, arraySort(sInt, e.ctx.sortOf(u.Elem())))
			e.ctx.assume(fmt.Sprintf("(forall ((H %s) (j Int)) (! (= %s %s) :pattern (%s)))", hs,
				e.elemAt("H", u.Elem(), rc, "j"), e.elemAt("H", u.Elem(), x.T, "(+ "+lo+" j)"), e.elemAt("H", u.Elem(), rc, "j")))
			if e.uses("SUBSLICE-REV") {
				// ... and the other way round (opt-in: needed when a callee's contract
				// speaks about the sub-slice and the caller about the whole slice)
				e.ctx.assume(fmt.Sprintf("(forall ((H %s) (j Int)) (! (= %s %s) :pattern (%s)))", hs,
					e.elemAt("H", u.Elem(), x.T, "j"), e.elemAt("H", u.Elem(), rc, "(- j "+lo+")"), e.elemAt("H", u.Elem(), x.T, "j")))
			}
		}
		e.set(fr, in, Val{T: res, S: sSlice})
	case *types.Basic: // string
		xs := e.tval(fr, st, in.X)
		lo := opt(in.Low, "0")
		hi := opt(in.High, app("slen", xs.T))
		e.oblige(fr, st, "slice", "string slice bounds in range", pos, and(le("0", lo), le(lo, hi), le(hi, app("slen", xs.T))))
		e.set(fr, in, Val{T: app("ssub", xs.T, lo, hi), S: sStr})
	case *types.Pointer:
		arr := u.Elem().Underlying().(*types.Array)
		n := num(arr.Len())
		lo := opt(in.Low, "0")
		hi := opt(in.High, n)
		e.oblige(fr, st, "slice", "array slice bounds in range", pos, and(le("0", lo), le(lo, hi), le(hi, n)))
		if x.Addr != nil || x.Bad != "" {
			e.note("%s: slicing an array that is not a whole object: havoced", e.w.pos(pos))
			e.set(fr, in, e.havocVal(st, in.Type(), "slice"))
			return
		}
		e.set(fr, in, Val{T: mkSlice(x.T, lo, sub(hi, lo), sub(n, lo)), S: sSlice})
	default:
		e.set(fr, in, e.havocVal(st, in.Type(), "slice"))
	}
}

// ---------------------------------------------------------------- range

func (e *Exec) stepRange(fr *frame, st *State, in *ssa.Range) {
	x := e.tval(fr, st, in.X)
	name := fmt.Sprintf("range$%s", in.Name())
	fr.rangeGhost[in] = name
	switch u := in.X.Type().Underlying().(type) {
	case *types.Map:
		e.mapAccess(fr, st, e.val(fr, in.X), false, in.Pos())
		ks := e.ctx.sortOf(u.Key())
		st.ghost[name+"$visited"] = Val{T: fmt.Sprintf("((as const %s) false)", arraySort(ks, sBool)), S: arraySort(ks, sBool)}
		st.ghost[name+"$n"] = Val{T: "0", S: sInt}
		e.set(fr, in, Val{T: x.T, S: sInt, GoT: in.X.Type()})
	default: // string
		st.ghost[name+"$pos"] = Val{T: "0", S: sInt}
		e.set(fr, in, Val{T: x.T, S: sStr, GoT: in.X.Type()})
	}
}

func (e *Exec) stepNext(fr *frame, st *State, in *ssa.Next) {
	rng := in.Iter.(*ssa.Range)
	name := fr.rangeGhost[rng]
	it := e.val(fr, rng)
	tup := in.Type().(*types.Tuple)
	if in.IsString {
		s := it.T
		p := st.ghost[name+"$pos"]
		if p.T == "" {
			p = e.havocVal(st, types.Typ[types.Int], "pos")
		}
		ok := lt(p.T, app("slen", s))
		size := e.ctx.fresh("rsize", sInt)
		r := e.ctx.fresh("rune", sInt)
		e.ctx.assume(imp(st.pc, and(le("0", p.T), le(p.T, app("slen", s)))))
		e.ctx.assume(imp(and(st.pc, ok), and(le("1", size), le(size, "4"), le(add(p.T, size), app("slen", s)),
			le("0", r), le(r, "1114111"),
			eq(r, app("rune_at", s, p.T)), eq(size, app("rune_size", s, p.T)),
			imp(lt(app("sat", s, p.T), "128"), and(eq(r, app("sat", s, p.T)), eq(size, "1"))),
			imp(le("128", app("sat", s, p.T)), le("128", r)))))
		e.useRuneFns()
		e.trust("range over string decodes UTF-8: 1 <= size <= 4, size <= remaining bytes, ASCII bytes decode to themselves with size 1, non-ASCII lead bytes decode to runes >= 128")
		st.ghost[name+"$pos"] = Val{T: ite(ok, add(p.T, size), p.T), S: sInt}
		e.set(fr, in, Val{Tup: []Val{{T: ok, S: sBool}, {T: p.T, S: sInt}, {T: r, S: sInt}}})
		return
	}
	mt := rng.X.Type().Underlying().(*types.Map)
	md, _ := e.mapHeaps(mt)
	ks := e.ctx.sortOf(mt.Key())
	m := it.T
	vis := st.ghost[name+"$visited"]
	n := st.ghost[name+"$n"]
	if vis.T == "" {
		vis = Val{T: e.ctx.fresh("visited", arraySort(ks, sBool)), S: arraySort(ks, sBool)}
		n = e.havocVal(st, types.Typ[types.Int], "nvisited")
	}
	e.mapCardFacts(st, mt, m)
	dom := sel(e.heapTerm(st, md), m)
	okc := e.ctx.fresh("ok", sBool)
	k := e.ctx.fresh("key", ks)
	kt := tup.At(1).Type()
	vt := tup.At(2).Type()
	_ = kt
	// The map must not be written while it is being ranged over for the
	// visited-set facts to be meaningful; checked by loop write-set analysis.
	st.ghost[name+"$map"] = Val{T: m, S: sInt}
	fr.rangeHdr[rng] = in.Block()
	fr.rangeMap[rng] = mt
	stable := true
	if stable {
		// visited is a subset of the domain, n counts it
		e.ctx.assume(imp(st.pc, and(le("0", n.T), le(n.T, e.mapLen(st, mt, m)), eq(n.T, app(e.cardFn(ks), vis.T)),
			fmt.Sprintf("(forall ((x %s)) (! (=> (select %s x) %s) :pattern ((select %s x))))", ks, vis.T, e.mapHas(st, mt, m, "x"), vis.T))))
		e.ctx.assume(imp(and(st.pc, okc), and(e.mapHas(st, mt, m, k), not(sel(vis.T, k)), lt(n.T, e.mapLen(st, mt, m)))))
		e.ctx.assume(imp(and(st.pc, not(okc)), and(eq(n.T, e.mapLen(st, mt, m)),
			fmt.Sprintf("(forall ((x %s)) (! (=> %s (select %s x)) :pattern ((select %s x)) :pattern ((select %s x))))", ks, e.mapHas(st, mt, m, "x"), vis.T, vis.T, dom))))
		e.trust("range over a map visits every key exactly once in an arbitrary order (ghost visited set); the loop does not write the map")
	} else {
		e.note("%s: map is written while ranged over: iteration order facts dropped", e.w.pos(in.Pos()))
		e.ctx.assume(imp(and(st.pc, okc), e.mapHas(st, mt, m, k)))
	}
	e.ctx.assume(imp(st.pc, e.valueFacts(k, mt.Key(), st.nextRef)))
	st.ghost[name+"$visited"] = Val{T: ite(okc, sto(vis.T, k, "true"), vis.T), S: vis.S}
	st.ghost[name+"$n"] = Val{T: ite(okc, add(n.T, "1"), n.T), S: sInt}
	st.ghost[name+"$key"] = Val{T: k, S: ks}
	_ = vt
	v := Val{T: e.mapGet(st, mt, m, k), S: e.ctx.sortOf(mt.Elem()), GoT: mt.Elem()}
	e.set(fr, in, Val{Tup: []Val{{T: okc, S: sBool}, {T: k, S: ks, GoT: mt.Key()}, v}})
}

func (e *Exec) useRuneFns() {
	e.ctx.declareFun("rune_at", []string{sStr, sInt}, sInt)
	e.ctx.declareFun("rune_size", []string{sStr, sInt}, sInt)
}

func (e *Exec) stepPhi(fr *frame, st *State, in *ssa.Phi) {
	b := in.Block()
	var pcs []string
	var vals []Val
	for i, p := range b.Preds {
		pc, ok := fr.edgePC[[2]*ssa.BasicBlock{p, b}]
		if !ok {
			continue
		}
		v := e.val(fr, in.Edges[i])
		if v.Bad != "" || v.T == "" {
			e.set(fr, in, e.havocVal(st, in.Type(), "phi"))
			return
		}
		pcs = append(pcs, pc)
		vals = append(vals, v)
	}
	if len(vals) == 0 {
		e.set(fr, in, e.havocVal(st, in.Type(), "phi"))
		return
	}
	e.set(fr, in, e.mergeVals(pcs, vals, "phi"))
}

func (e *Exec) stepTypeAssert(fr *frame, st *State, in *ssa.TypeAssert) {
	x := e.tval(fr, st, in.X)
	at := in.AssertedType
	if _, isIface := at.Underlying().(*types.Interface); isIface {
		ok := e.ctx.fresh("ok", sBool)
		if in.CommaOk {
			e.set(fr, in, Val{Tup: []Val{x, {T: ok, S: sBool}}})
		} else {
			e.oblige(fr, st, "assert", "interface conversion succeeds", in.Pos(), ok)
			e.set(fr, in, x)
		}
		return
	}
	tagok := eq(app("if_tag", x.T), num(int64(e.typeTag(at))))
	v := Val{T: e.unbox(app("if_val", x.T), at), S: e.ctx.sortOf(at), GoT: at}
	if in.CommaOk {
		e.set(fr, in, Val{Tup: []Val{v, {T: tagok, S: sBool}}})
	} else {
		e.oblige(fr, st, "assert", "type assertion to "+at.String()+" succeeds", in.Pos(), tagok)
		e.ctx.assume(imp(st.pc, e.valueFacts(v.T, at, st.nextRef)))
		e.set(fr, in, v)
	}
}

func (e *Exec) typeTag(t types.Type) int {
	if b, ok := t.(*types.Basic); ok && b.Kind() < types.UntypedBool {
		t = types.Typ[b.Kind()] // byte/uint8 and rune/int32 are identical types
	}
	k := types.TypeString(t, nil)
	if n, ok := e.typeTags[k]; ok {
		return n
	}
	n := len(e.typeTags) + 1
	e.typeTags[k] = n
	return n
}

func (e *Exec) box(v Val, t types.Type) string {
	s := e.ctx.sortOf(t)
	switch s {
	case sInt:
		return v.T
	case sStr, sF, sSlice, sBool:
		return app("box_"+s, v.T)
	}
	fn := "box_" + sanitize(s)
	e.ctx.declareFun(fn, []string{s}, sInt)
	e.ctx.declareFun("un"+fn, []string{sInt}, s)
	ax := fmt.Sprintf("(forall ((x %s)) (! (= (un%s (%s x)) x) :pattern ((%s x))))", s, fn, fn, fn)
	if !e.boxAx[fn] {
		e.boxAx[fn] = true
		e.ctx.assumeGlobal(ax)
	}
	return app(fn, v.T)
}

func (e *Exec) unbox(t string, gt types.Type) string {
	s := e.ctx.sortOf(gt)
	switch s {
	case sInt:
		return t
	case sStr, sF, sSlice, sBool:
		return app("unbox_"+s, t)
	}
	fn := "box_" + sanitize(s)
	e.ctx.declareFun(fn, []string{s}, sInt)
	e.ctx.declareFun("un"+fn, []string{sInt}, s)
	return app("un"+fn, t)
}

func (e *Exec) stepGo(fr *frame, st *State, in *ssa.Go) {
	// the spawned function is verified on its own under its `requires`; they
	// are checked here, at the spawn site
	var callee *ssa.Function
	var bindings []Val
	var goEnv *SpecEnv
	fv := e.val(fr, in.Call.Value)
	if fv.Clo != nil {
		callee, bindings = fv.Clo.Fn, fv.Clo.Bindings
	} else if sc := in.Call.StaticCallee(); sc != nil {
		callee = sc
	}
	if callee != nil {
		if spec := e.specOf(callee); spec != nil {
			// a new goroutine holds no locks
			gst := st.clone()
			for _, n := range tlHeaps {
				e.regHeap(n, arraySort(sInt, sInt), nil, 'G', "")
				gst.heaps[n] = "((as const (Array Int Int)) 0)"
			}
			env := &SpecEnv{ex: e, st: gst, old: gst, vars: map[string]Val{}, fn: callee, spec: spec, callerFr: fr}
			names := paramNames(callee, in.Call.Signature())
			for i, a := range in.Call.Args {
				if i < len(names) {
					v := e.tval(fr, st, a)
					v.GoT = callee.Params[i].Type()
					env.vars[names[i]] = v
				}
			}
			for i, fvv := range callee.FreeVars {
				if i < len(bindings) && bindings[i].T != "" {
					// a captured variable is named by its content in contracts
					t := fvv.Type().Underlying().(*types.Pointer).Elem()
					env.vars[fvv.Name()] = env.loadRef(bindings[i].T, t)
					if env.addrs == nil {
						env.addrs = map[string]Val{}
					}
					env.addrs[fvv.Name()] = Val{T: bindings[i].T, S: sInt, GoT: fvv.Type()}
				}
			}
			// logical variables of the spawned function's contract: bound by the
			// spawner's `callghost` clauses
			for _, gp := range spec.GhostParams {
				var bound Expr
				if m, ok := fr.specCallGhost(callee.Name()); ok {
					bound = m[gp.Name]
				}
				if bound != nil {
					cenv := e.specEnv(fr, st, nil)
					for k, v := range fr.entryParams {
						if _, isLocal := fr.locals[k]; !isLocal {
							cenv.vars[k] = v
						}
					}
					env.vars[gp.Name] = cenv.eval(bound)
				} else {
					t := env.resolveType(gp.Type)
					if t == nil {
						t = types.Typ[types.Int]
					}
					env.vars[gp.Name] = e.havocVal(st, t, "ghost_"+gp.Name)
					e.note("%s: ghost parameter %s of spawned %s is not bound by a callghost clause: arbitrary", e.w.pos(in.Pos()), gp.Name, funcKey(callee))
				}
			}
			// permissions the goroutine starts with are handed over by the spawner
			for _, h := range spec.Holds {
				x := env.eval(h.E)
				hn := "G$" + h.Fn
				mine := sel(e.tlHeap(st, hn), x.T)
				k := num(int64(h.N))
				switch h.Fn {
				case "wgtok":
					e.oblige(fr, st, "perm:go:"+callee.Name(), "spawner owns the WaitGroup tokens handed to "+callee.Name()+": "+h.Src, in.Pos(), le(k, mine))
					e.setHeap(st, hn, sto(e.tlHeap(st, hn), x.T, sub(mine, k)))
				case "chcredit":
					e.oblige(fr, st, "perm:go:"+callee.Name(), "spawner owns the free buffer slots handed to "+callee.Name()+": "+h.Src, in.Pos(), le(k, mine))
					e.setHeap(st, hn, sto(e.tlHeap(st, hn), x.T, sub(mine, k)))
				case "wgst":
					// handing out the right to Wait: the spawner created the
					// WaitGroup (or may itself Wait) and can no longer Add
					if h.N != 2 {
						e.specErrors = append(e.specErrors, "holds wgst(...) must be 2 ("+h.Line+")")
					}
					e.oblige(fr, st, "perm:go:"+callee.Name(), "spawner may hand out the right to Wait: "+h.Src, in.Pos(), or(eq(mine, "1"), eq(mine, "2")))
					e.setHeap(st, hn, sto(e.tlHeap(st, hn), x.T, "2"))
				case "mayclose":
					e.oblige(fr, st, "perm:go:"+callee.Name(), "spawner holds the close permission handed to "+callee.Name()+": "+h.Src, in.Pos(), eq(mine, "1"))
					e.setHeap(st, hn, sto(e.tlHeap(st, hn), x.T, "0"))
				}
				gst.heaps[hn] = sto(gst.heaps[hn], x.T, k)
			}
			if len(spec.Holds) > 0 {
				e.trust("permissions (WaitGroup tokens, right to Wait, close permission) are thread-local ghost state: created with the object, moved only by `holds` at go statements, consumed by Done/close")
			}
			for _, c := range spec.Requires {
				v := env.eval(c.E)
				e.oblige(fr, st, "pre:go:"+callee.Name(), "precondition of spawned "+funcKey(callee)+": "+c.Src, in.Pos(), v.T)
			}
			goEnv = &SpecEnv{ex: e, st: st, old: st, vars: env.vars, addrs: env.addrs, fn: callee, spec: spec, callerFr: fr}
			// the spawner's own `callreq` and `ghostset ... after` clauses for the
			// spawned function apply at the go statement as at a call
			if fr == e.topFrame && fr.spec != nil {
				bindArgs := func(cenv *SpecEnv) {
					for k, v := range fr.entryParams {
						if _, isLocal := fr.locals[k]; !isLocal {
							cenv.vars[k] = v
						}
					}
					for i, a := range in.Call.Args {
						if i < len(names) {
							v := e.tval(fr, st, a)
							v.GoT = callee.Params[i].Type()
							cenv.vars["arg_"+names[i]] = v
						}
					}
				}
				keys := append([]string{callee.Name()}, e.siteKeys(fr, callee.Name())...)
				for _, k := range keys {
					for _, c := range fr.spec.CallReqs[k] {
						cenv := e.specEnv(fr, st, nil)
						bindArgs(cenv)
						v := cenv.eval(c.E)
						e.oblige(fr, st, "lock:call:"+callee.Name(), "go "+callee.Name()+" requires "+c.Src, in.Pos(), v.T)
					}
				}
				for _, gs := range fr.spec.GhostSets {
					if gs.OnStore != "" {
						continue
					}
					hit := false
					for _, k := range keys {
						hit = hit || k == gs.Callee
					}
					if !hit {
						continue
					}
					g, ok := e.ss.GhostVars[gs.Var]
					if !ok {
						e.specErrors = append(e.specErrors, "ghostset: unknown ghost variable "+gs.Var)
						continue
					}
					genv := e.specEnv(fr, st, nil)
					bindArgs(genv)
					v := genv.eval(gs.E)
					genv.ghostVar(g)
					e.setHeap(st, "G$"+gs.Var, v.T)
				}
			}
			e.trust("preconditions of goroutine " + funcKey(callee) + " are checked at the go statement and assumed stable until it runs")
		} else {
			e.note("%s: go statement spawns %s which has no contract", e.w.pos(in.Pos()), funcKey(callee))
		}
	}
	if callee != nil {
		if spec := e.specOf(callee); spec != nil && spec.HasMod && goEnv != nil {
			// the goroutine's effects are bounded by its `modifies` (checked when
			// the goroutine body is verified): the spawner forgets exactly those
			// locations, from now on
			var mods []heapLoc
			for _, c := range spec.Modifies {
				cond := ""
				if c.When != nil {
					cond = goEnv.eval(c.When).T
				}
				for _, l := range c.Locs {
					for _, hl := range goEnv.evalLoc(l) {
						hl.cond = cond
						mods = append(mods, hl)
					}
				}
			}
			ws := map[string]bool{}
			for k := range e.writeSet(callee) {
				if isTL(k) {
					continue
				}
				ws[k] = true
			}
			if !ws[wsAll] {
				if e.spec != nil && e.spec.HasMod && !e.modAll {
					for _, m := range mods {
						c := m.cond
						if c == "" {
							c = "true"
						}
						if m.pred != nil || m.all {
							e.oblige(fr, st, "frame-call:go:"+callee.Name(), "locations modified by the spawned function are inside caller's `modifies`", in.Pos(), fmt.Sprintf("(forall ((r Int)) (=> %s %s))", m.has("r"), e.inFrame(m.heap, "r")))
						} else {
							e.oblige(fr, st, "frame-call:go:"+callee.Name(), "location modified by the spawned function ("+m.heap+") is inside caller's `modifies`", in.Pos(), imp(c, e.inFrame(m.heap, m.ref)))
						}
					}
				}
				e.havocWrites(fr, st, ws, mods, spec, in.Pos(), funcKey(callee))
				// rely/guarantee: what the goroutine guarantees at every point where
				// its writes become visible may be assumed by the spawner
				for _, c := range spec.Guarantees {
					genv := &SpecEnv{ex: e, st: st, old: st, vars: goEnv.vars, fn: callee, spec: spec, callerFr: fr}
					v := genv.eval(c.E)
					e.ctx.assume(imp(st.pc, v.T))
				}
				e.trust("go statement in " + e.key + ": the spawned " + funcKey(callee) + " may from now on write the locations of its `modifies` clause; the spawner is assumed not to read them before joining")
				return
			}
		}
		ws := e.writeSet(callee)
		if !ws[wsAll] {
			// the goroutine may write these heaps at any time from now on: the
			// spawner forgets them (it must not rely on them until it has joined)
			names := make([]string, 0, len(ws))
			for k := range ws {
				names = append(names, k)
			}
			sort.Strings(names)
			pre := st.nextRef
			for _, name := range names {
				if name == wsAlloc || name == wsFreshAll {
					continue
				}
				if hi, ok := e.heapInfos[name]; !ok || hi.kind == 'G' || hi.kind == 'g' {
					continue
				}
				e.havocHeap(st, name)
			}
			st.nextRef = e.ctx.fresh("nextRef", sInt)
			e.ctx.assume(imp(st.pc, le(pre, st.nextRef)))
			e.trust("go statement in " + e.key + ": the spawner forgets exactly the heaps the spawned function may write (" + strings.Join(names, " ") + ") and is assumed not to read them before joining")
			return
		}
	}
	e.note("%s: go statement: the spawner's view of shared memory is havoced", e.w.pos(in.Pos()))
	e.havocAll(st)
}

// chanDecl: a channel variable of the function family with its declared
// closing discipline.
type chanDecl struct {
	ch    string // the channel (reference term)
	wg    string // address of the guarding WaitGroup; "" if not in scope here
	never bool
	src   string
}

// chanDecls collects the `closeguard` / `neverclosed` declarations of the
// function being verified and of the functions it is nested in, resolved in
// the top frame (a closure names a captured variable by the same name).
func (e *Exec) chanDecls(st *State) []chanDecl {
	fr := e.topFrame
	if fr == nil {
		return nil
	}
	inScope := func(name string) bool {
		if p, ok := fr.captured[name]; ok && p.T != "" {
			return true
		}
		for _, a := range fr.locals[name] {
			if pv, ok := fr.vals[a]; ok && pv.T != "" {
				return true
			}
		}
		for _, p := range fr.fn.Params {
			if p.Name() == name {
				return true
			}
		}
		return false
	}
	var out []chanDecl
	for fn := fr.fn; fn != nil; fn = fn.Parent() {
		spec := e.specOf(fn)
		if spec == nil {
			continue
		}
		for _, g := range spec.CloseGuards {
			if !inScope(g[0]) {
				continue
			}
			env := e.specEnv(fr, st, nil)
			d := chanDecl{ch: env.eval(EIdent{Name: g[0]}).T, src: "closeguard " + g[0] + " " + g[1]}
			if inScope(g[1]) {
				d.wg = env.eval(EUn{Op: "&", X: EIdent{Name: g[1]}}).T
			}
			out = append(out, d)
		}
		for _, n := range spec.NeverClosed {
			if !inScope(n) {
				continue
			}
			env := e.specEnv(fr, st, nil)
			out = append(out, chanDecl{ch: env.eval(EIdent{Name: n}).T, never: true, src: "neverclosed " + n})
		}
	}
	return out
}

// sendOpen: a send on a closed channel panics. The sender must know the
// channel is open: it holds the unused close permission itself, or the channel
// is declared never closed, or it is closed only after Wait of a WaitGroup
// (`closeguard`) and the sender still owns a token of that WaitGroup (or is its
// creator and has not yet handed out the right to Wait).
func (e *Exec) sendOpen(fr *frame, st *State, ch string, pos token.Pos) {
	alts := []string{eq(sel(e.tlHeap(st, "G$mayclose"), ch), "1")}
	for _, d := range e.chanDecls(st) {
		switch {
		case d.never:
			alts = append(alts, eq(ch, d.ch))
		case d.wg != "":
			alts = append(alts, and(eq(ch, d.ch), or(le("1", sel(e.tlHeap(st, "G$wgtok"), d.wg)), eq(sel(e.tlHeap(st, "G$wgst"), d.wg), "1"))))
		}
	}
	e.oblige(fr, st, "chan:send-open", "send on a channel that cannot have been closed (sender holds the close permission, or a token of the WaitGroup its close waits for)", pos, or(alts...))
	e.trust("a channel is closed only by functions under contract; `closeguard ch wg`: close(ch) needs a completed wg.Wait(), every wg.Add precedes the hand-out of the right to Wait, so a goroutine that owns an Add unit (no Done yet) knows ch is open")
}

// closePerm: obligations of close(ch).
func (e *Exec) closePerm(fr *frame, st *State, ch string, pos token.Pos) {
	mc := e.tlHeap(st, "G$mayclose")
	e.oblige(fr, st, "chan:close-perm", "close: this goroutine holds the unique, unused permission to close the channel (no double close)", pos, eq(sel(mc, ch), "1"))
	for _, d := range e.chanDecls(st) {
		switch {
		case d.never:
			e.oblige(fr, st, "chan:close-guard", "close of a channel declared "+d.src, pos, not(eq(ch, d.ch)))
		case d.wg == "":
			e.oblige(fr, st, "chan:close-guard", "close of a channel whose guard is not in scope ("+d.src+")", pos, not(eq(ch, d.ch)))
		default:
			e.oblige(fr, st, "chan:close-guard", "close only after Wait ("+d.src+")", pos, imp(eq(ch, d.ch), eq(sel(e.tlHeap(st, "G$wgst"), d.wg), "3")))
		}
	}
	e.setHeap(st, "G$mayclose", sto(mc, ch, "0"))
}

// nonBlockingChans: the channels declared `nonblocking` in the function family,
// resolved in the top frame.
func (e *Exec) nonBlockingChans(st *State) []string {
	fr := e.topFrame
	if fr == nil {
		return nil
	}
	var out []string
	for fn := fr.fn; fn != nil; fn = fn.Parent() {
		spec := e.specOf(fn)
		if spec == nil {
			continue
		}
		for _, n := range spec.NonBlocking {
			inScope := false
			if p, ok := fr.captured[n]; ok && p.T != "" {
				inScope = true
			}
			for _, a := range fr.locals[n] {
				if pv, ok := fr.vals[a]; ok && pv.T != "" {
					inScope = true
				}
			}
			if !inScope {
				continue
			}
			out = append(out, e.specEnv(fr, st, nil).eval(EIdent{Name: n}).T)
		}
	}
	return out
}

// sendCredit: a send on a channel declared `nonblocking` must use a free buffer
// slot reserved for this goroutine (created by make, handed over by `holds
// chcredit`, regained by receiving from the open channel); the sum of all
// credits never exceeds the free slots, so the send cannot block.
func (e *Exec) sendCredit(fr *frame, st *State, ch string, pos token.Pos) {
	nb := e.nonBlockingChans(st)
	if len(nb) == 0 {
		return
	}
	var is []string
	for _, c := range nb {
		is = append(is, eq(ch, c))
	}
	cr := e.tlHeap(st, "G$chcredit")
	mine := sel(cr, ch)
	e.oblige(fr, st, "chan:send-credit", "send on a `nonblocking` channel uses a free buffer slot reserved for this goroutine (it cannot block)", pos, imp(or(is...), le("1", mine)))
	e.setHeap(st, "G$chcredit", sto(cr, ch, ite(or(is...), sub(mine, "1"), mine)))
	e.trust("`nonblocking ch`: free buffer slots are thread-local ghost credits (make gives cap(ch) to the maker, a receive from the still open channel gives one to the receiver, `holds chcredit` moves them at go statements); a send that consumes one finds a free slot")
}

// recvCredit: receiving from a `nonblocking` channel that is known to be open
// (so the value really came out of the buffer) frees one slot for the receiver.
func (e *Exec) recvCredit(fr *frame, st *State, ch string) {
	nb := e.nonBlockingChans(st)
	if len(nb) == 0 {
		return
	}
	var is []string
	for _, c := range nb {
		is = append(is, eq(ch, c))
	}
	open := eq(sel(e.tlHeap(st, "G$mayclose"), ch), "1")
	for _, d := range e.chanDecls(st) {
		if d.never {
			open = or(open, eq(ch, d.ch))
		} else if d.wg != "" {
			open = or(open, and(eq(ch, d.ch), or(le("1", sel(e.tlHeap(st, "G$wgtok"), d.wg)), eq(sel(e.tlHeap(st, "G$wgst"), d.wg), "1"))))
		}
	}
	cr := e.tlHeap(st, "G$chcredit")
	mine := sel(cr, ch)
	e.setHeap(st, "G$chcredit", sto(cr, ch, ite(and(or(is...), open), add(mine, "1"), mine)))
}

func (e *Exec) stepSend(fr *frame, st *State, in *ssa.Send) {
	// A channel is not modelled as a data structure. What a function sends is
	// constrained by the `onsend requires` clauses of its contract and recorded
	// in ghost variables by `ghostset ... onsend` (`value` is the sent value).
	x := e.tval(fr, st, in.X)
	x.GoT = in.X.Type()
	e.sendOpen(fr, st, e.tval(fr, st, in.Chan).T, in.Pos())
	e.sendCredit(fr, st, e.tval(fr, st, in.Chan).T, in.Pos())
	if fr != e.topFrame || fr.spec == nil {
		e.note("%s: channel send in an inlined function: not checked", e.w.pos(in.Pos()))
		return
	}
	mkenv := func() *SpecEnv {
		env := e.specEnv(fr, st, nil)
		for k, v := range fr.entryParams {
			if _, isLocal := fr.locals[k]; !isLocal {
				env.vars[k] = v
			}
		}
		env.vars["value"] = x
		return env
	}
	for _, c := range fr.spec.OnSend {
		v := mkenv().eval(c.E)
		e.oblige(fr, st, "send", "channel send satisfies "+c.Src, in.Pos(), v.T)
	}
	for _, gs := range fr.spec.GhostSets {
		if gs.OnStore != "@send" {
			continue
		}
		g, ok := e.ss.GhostVars[gs.Var]
		if !ok {
			e.specErrors = append(e.specErrors, "ghostset: unknown ghost variable "+gs.Var)
			continue
		}
		env := mkenv()
		v := env.eval(gs.E)
		env.ghostVar(g)
		e.setHeap(st, "G$"+gs.Var, v.T)
	}
}

var _ = strings.Join

// rangeStable: a write to map object m (heap mv) must not hit a map that an
// enclosing loop is ranging over; the visited-set facts of Next rely on it.
func (e *Exec) rangeStable(fr *frame, st *State, mv, m string, pos token.Pos) {
	for _, rng := range sortedRanges(fr.rangeGhost) {
		name := fr.rangeGhost[rng]
		mt, ok := fr.rangeMap[rng]
		if !ok {
			continue
		}
		_, rmv := e.mapHeaps(mt)
		if rmv != mv {
			continue
		}
		h := fr.rangeHdr[rng]
		if h == nil || fr.cur == nil || !fr.loops.body[h][fr.cur] {
			continue
		}
		g, ok := st.ghost[name+"$map"]
		if !ok {
			continue
		}
		if m == "" {
			e.oblige(fr, st, "range-stable", "a callee with unknown frame may write the map being ranged over", pos, "false")
			continue
		}
		e.oblige(fr, st, "range-stable", "the map being ranged over is not written inside the loop", pos, not(eq(m, g.T)))
	}
}

func sortedRanges(m map[*ssa.Range]string) []*ssa.Range {
	out := make([]*ssa.Range, 0, len(m))
	for r := range m {
		out = append(out, r)
	}
	sort.Slice(out, func(i, j int) bool { return m[out[i]] < m[out[j]] })
	return out
}

// mapAccess: reading/writing the contents of a map that was loaded from a
// struct field with an `access` rule counts as access to that field.
func (e *Exec) mapAccess(fr *frame, st *State, m Val, write bool, pos token.Pos) {
	if m.From == "" || e.spec == nil || len(e.spec.Access) == 0 {
		return
	}
	parts := strings.SplitN(m.From, ".", 2)
	e.accessRules(fr, st, parts[0], parts[1]+"[]", m.FromOwner, write, pos)
}

// zeroLocks: a newly allocated sync.Mutex / sync.RWMutex (possibly embedded in
// the allocated struct) is unlocked.
func (e *Exec) zeroLocks(st *State, r string, t types.Type) {
	if n, ok := t.(*types.Named); ok && n.Obj().Pkg() != nil && n.Obj().Pkg().Path() == "sync" &&
		(n.Obj().Name() == "Mutex" || n.Obj().Name() == "RWMutex") {
		e.regHeap("G$lock", arraySort(sInt, sInt), nil, 'G', "")
		e.setHeap(st, "G$lock", sto(e.heapTerm(st, "G$lock"), r, "0"))
		return
	}
	if n, ok := t.(*types.Named); ok && n.Obj().Pkg() != nil && n.Obj().Pkg().Path() == "sync" && n.Obj().Name() == "WaitGroup" {
		// a fresh WaitGroup: no tokens, created by this goroutine
		e.setHeap(st, "G$wgtok", sto(e.tlHeap(st, "G$wgtok"), r, "0"))
		e.setHeap(st, "G$wgst", sto(e.tlHeap(st, "G$wgst"), r, "1"))
		return
	}
	stt, ok := t.Underlying().(*types.Struct)
	if !ok {
		return
	}
	for i := 0; i < stt.NumFields(); i++ {
		if isStruct(stt.Field(i).Type()) {
			e.zeroLocks(st, app("emb", r, num(int64(i))), stt.Field(i).Type())
		}
	}
}
