package main

import (
	"fmt"
	"go/token"
	"go/types"
	"regexp"
	"sort"
	"strings"

	"golang.org/x/tools/go/ssa"
)

// FuncResult is what verifying one function produced.
type FuncResult struct {
	Key      string
	Spec     *FuncSpec
	Obls     []*Obligation
	Notes    []string
	Assumed  []string
	SpecErrs []string
	Used     map[string]*FuncSpec
	Pos      string
	Err      string
	Loops    int
}

func newExec(w *World, ss *SpecSet, fn *ssa.Function, spec *FuncSpec) *Exec {
	e := &Exec{w: w, ss: ss, ctx: newCtx(), fn: fn, spec: spec, key: funcKey(fn),
		heapInfos: map[string]*heapInfo{}, obCount: map[string]int{}, assumed: map[string]bool{},
		modset: map[string][]modLoc{}, closureIDs: map[string]*Closure{}, cardDone: map[string]bool{},
		typeTags: map[string]int{}, boxAx: map[string]bool{}, usedSpecs: map[string]*FuncSpec{},
		wsCache: map[*ssa.Function]map[string]bool{}, globalByRef: map[string]*ssa.Global{}, epochFrames: map[int]*epochFrame{}, boxClosures: map[string]*Closure{}, defaultSpecs: map[string]*FuncSpec{}, witnesses: map[string]Val{}}
	// the thread-local ghost heaps exist in every function (write sets mention
	// them before the first instruction that uses them is executed)
	for _, n := range tlHeaps {
		e.regHeap(n, arraySort(sInt, sInt), nil, 'G', "")
	}
	return e
}

// extra Exec fields (kept here to keep exec.go focused)
type execExtra struct{}

func verifyFunction(w *World, ss *SpecSet, fn *ssa.Function, spec *FuncSpec) (res *FuncResult) {
	e := newExec(w, ss, fn, spec)
	res = &FuncResult{Key: e.key, Spec: spec, Pos: w.pos(fn.Pos())}
	defer func() {
		if r := recover(); r != nil {
			res.Err = fmt.Sprintf("generator failure: %v", r)
			res.Obls = e.ctx.obls
			res.Notes = e.notes
			if debugPanic {
				panic(r)
			}
		}
	}()
	if spec.Arith == "bv" {
		e.ctx.bv = true
	}
	if fn.Blocks == nil {
		res.Err = "function has no body"
		return
	}
	e.nextRef0 = "nextRef!0"
	if !e.ctx.bv {
		e.ctx.declare(e.nextRef0, sInt)
		e.ctx.assume(lt("0", e.nextRef0))
	}
	for _, gk := range sortedKeys(ss.GhostVars) {
		g := ss.GhostVars[gk]
		env := &SpecEnv{ex: e, st: nil, vars: map[string]Val{}}
		env.st = &State{pc: "true", heaps: map[string]string{}, ghost: map[string]Val{}, cells: map[*ssa.Alloc]Val{}, nextRef: e.nextRef0}
		env.ghostVar(g)
	}
	e.stateSeq = 1
	e.ctx.tag = 1
	st := &State{id: 1, pc: "true", cells: map[*ssa.Alloc]Val{}, heaps: map[string]string{}, ghost: map[string]Val{}, nextRef: e.nextRef0}
	e.entry = st.clone()
	fr := e.newFrame(fn, spec, e.key)
	e.topFrame = fr
	fr.entrySt = e.entry
	res.Loops = len(fr.loops.headers)
	var args, binds []Val
	for _, p := range fn.Params {
		v := e.havocVal(st, p.Type(), "p_"+p.Name())
		args = append(args, v)
		fr.entryParams[p.Name()] = v
	}
	for _, fv := range fn.FreeVars {
		v := e.havocVal(st, fv.Type(), "fv_"+fv.Name())
		binds = append(binds, v)
		if v.T != "" {
			e.ctx.assume(lt("0", v.T)) // the address of a captured variable is never nil
		}
		// a captured variable: the contract names it directly (its content)
		fr.captured[fv.Name()] = v
	}
	// logical variables of the contract: arbitrary values
	for _, gp := range spec.GhostParams {
		env := e.specEnv(fr, st, nil)
		t := env.resolveType(gp.Type)
		if t == nil {
			e.specErrors = append(e.specErrors, "unknown type of ghostparam "+gp.Name)
			continue
		}
		fr.entryParams[gp.Name] = e.havocVal(st, t, "ghost_"+gp.Name)
	}
	// modifies
	menv := e.specEnv(fr, st, nil)
	menv.vars = map[string]Val{}
	menv.ownFrame = true
	for k, v := range fr.entryParams {
		menv.vars[k] = v
	}
	for _, c := range spec.Modifies {
		cond := "true"
		if c.When != nil {
			cond = menv.eval(c.When).T
		}
		for _, l := range c.Locs {
			for _, hl := range menv.evalLoc(l) {
				e.modset[hl.heap] = append(e.modset[hl.heap], modLoc{ref: hl.ref, cond: cond, pred: hl.pred, all: hl.all})
			}
		}
	}
	// requires
	var reqs []string
	for _, c := range spec.Requires {
		env := e.specEnv(fr, st, nil)
		for k, v := range fr.entryParams {
			env.vars[k] = v
		}
		v := env.eval(c.E)
		e.ctx.group = c.Group
		e.ctx.assume(v.T)
		e.ctx.group = ""
		reqs = append(reqs, v.T)
	}
	// unchecked assumptions of the contract (reported in the evidence)
	for _, c := range spec.Assumes2 {
		env := e.specEnv(fr, st, nil)
		for k, v := range fr.entryParams {
			env.vars[k] = v
		}
		v := env.eval(c.E)
		e.ctx.assume(v.T)
		e.trust("UNCHECKED assumption of " + e.key + " (" + c.Line + "): " + c.Src)
	}
	// axioms (`lemma name: expr`): definitional facts about uninterpreted
	// specification functions, assumed where a function says `uses name`
	for _, u := range spec.Uses {
		for _, l := range ss.Lemmas {
			if l.Name != u {
				continue
			}
			e.ctx.assumeGlobal(e.lemmaTerm(l, st))
			e.trust("AXIOM " + l.Name + " (" + l.Line + "): " + l.Src + " (assumed; defines a specification function)")
		}
	}
	// lemmas proved in `prove` blocks of the same package, imported by name
	for _, u := range spec.Uses {
		lb, ok := ss.Funcs[spec.Pkg+".prove "+u]
		if !ok {
			continue
		}
		env := &SpecEnv{ex: e, st: st, old: st, vars: map[string]Val{}, spec: spec, nextRef0: e.nextRef0}
		if len(lb.Assumes) > 0 {
			e.specErrors = append(e.specErrors, "uses "+u+": a prove block with `given` clauses cannot be imported")
			continue
		}
		for _, c := range lb.Claims {
			v := env.eval(c.E)
			e.ctx.assumeGlobal(v.T)
		}
		e.usedSpecs[spec.Pkg+".prove "+u] = lb
		e.trust("lemma " + u + " (" + lb.Line + ") is used here as a hypothesis; it is proved separately by its `prove` block")
	}
	// facts established by the package initialiser about never-reassigned globals
	for _, g := range ss.Globals {
		if fn.Pkg == nil || g.Pkg != fn.Pkg.Pkg.Path() || e.ctx.bv {
			continue
		}
		env := e.specEnv(fr, st, nil)
		env.fr = nil
		v := env.eval(g.E)
		e.ctx.assume(v.T)
		e.trust("package initialiser fact (assumed): " + g.Name + ": " + g.Src)
	}
	// ghost assignments at entry
	for _, gs := range spec.GhostSets {
		if gs.OnStore != "@entry" {
			continue
		}
		g, ok := ss.GhostVars[gs.Var]
		if !ok {
			e.specErrors = append(e.specErrors, "ghostset: unknown ghost variable "+gs.Var)
			continue
		}
		env := e.specEnv(fr, st, nil)
		for k, v := range fr.entryParams {
			env.vars[k] = v
		}
		v := env.eval(gs.E)
		env.ghostVar(g)
		e.setHeap(st, "G$"+gs.Var, v.T)
	}
	// vacuity: preconditions together with the background facts are satisfiable
	{
		o := &Obligation{Name: e.key + "#vac-req@1", Kind: "vac-req", Func: e.key, Pos: res.Pos,
			Desc: "preconditions are satisfiable", nhyps: len(e.ctx.hyps), pc: "true", goal: "true", ctx: e.ctx, Vacuity: true, Props: spec.Props, state: 1}
		e.ctx.obls = append(e.ctx.obls, o)
	}
	fr.onReturn = func(rst *State, rs []Val, pos token.Pos) {
		env := e.specEnv(fr, rst, nil)
		for k, v := range fr.entryParams {
			env.vars[k] = v
		}
		bindResults(env.vars, fn, fn.Signature, rs)
		for i, c := range spec.Ensures {
			v := env.eval(c.E)
			name := fmt.Sprintf("post:%d", i+1)
			if c.Name != "" {
				name = "post:" + c.Name
			}
			e.onlyProps = c.OnlyProps
			e.ctx.group = c.Group
			e.oblige(fr, rst, name, "postcondition: "+c.Src, pos, v.T)
			e.ctx.group = ""
			e.onlyProps = nil
		}
		e.checkGuarantees(fr, rst, pos)
		// reachability cover of this return
		o := &Obligation{Kind: "vac-reach", Func: e.key, Pos: w.pos(pos), Desc: "return is reachable under the preconditions",
			nhyps: len(e.ctx.hyps), pc: rst.pc, goal: "true", ctx: e.ctx, Vacuity: true, Props: spec.Props, state: rst.id}
		e.obCount[e.key+"#vac-reach"]++
		o.Name = fmt.Sprintf("%s#vac-reach@%d", e.key, e.obCount[e.key+"#vac-reach"])
		e.ctx.obls = append(e.ctx.obls, o)
	}
	e.runBody(fr, st, args, binds)
	res.Obls = e.ctx.obls
	res.Notes = e.notes
	res.SpecErrs = e.specErrors
	res.Used = e.usedSpecs
	for k := range e.assumed {
		res.Assumed = append(res.Assumed, k)
	}
	sort.Strings(res.Assumed)
	// contract clauses on loops that do not exist
	for ord := range spec.Loops {
		if ord < 1 || ord > len(fr.loops.headers) {
			res.SpecErrs = append(res.SpecErrs, fmt.Sprintf("contract of %s mentions loop %d but the function has %d loops", e.key, ord, len(fr.loops.headers)))
		}
	}
	return
}

var debugPanic = false

// describeLoops lists the loops of a function with their ordinals.
func describeLoops(w *World, fn *ssa.Function) string {
	li := analyseLoops(fn)
	var b strings.Builder
	for _, h := range li.headers {
		fmt.Fprintf(&b, "  loop %d: block %d (%s) at %s, %d blocks\n", li.ordinal[h], h.Index, h.Comment, w.pos(firstPos(h)), len(li.body[h]))
	}
	return b.String()
}

var _ = types.Typ

func verifyTarget(t target) *FuncResult {
	if t.fn == nil {
		return verifyLemma(t.w, t.ss, t.spec, t.key)
	}
	return verifyFunction(t.w, t.ss, t.fn, t.spec)
}

// verifyLemma proves the claims of a `prove` block: closed formulas over
// specification functions and symbolic values (no code involved).
func verifyLemma(w *World, ss *SpecSet, spec *FuncSpec, key string) (res *FuncResult) {
	e := newExec(w, ss, nil, spec)
	e.key = key
	res = &FuncResult{Key: key, Spec: spec, Pos: spec.Line}
	defer func() {
		if r := recover(); r != nil {
			res.Err = fmt.Sprintf("generator failure: %v", r)
			res.Obls = e.ctx.obls
			if debugPanic {
				panic(r)
			}
		}
	}()
	if spec.Arith == "bv" {
		e.ctx.bv = true
	}
	e.nextRef0 = "nextRef!0"
	if !e.ctx.bv {
		e.ctx.declare(e.nextRef0, sInt)
		e.ctx.assume(lt("0", e.nextRef0))
	}
	e.stateSeq = 1
	e.ctx.tag = 1
	st := &State{id: 1, pc: "true", cells: map[*ssa.Alloc]Val{}, heaps: map[string]string{}, ghost: map[string]Val{}, nextRef: e.nextRef0}
	e.entry = st.clone()
	fr := &frame{fn: nil, vals: map[ssa.Value]Val{}, spec: spec, prefix: key, loops: &loopInfo{}, locals: map[string][]*ssa.Alloc{},
		entryParams: map[string]Val{}}
	env := &SpecEnv{ex: e, st: st, old: st, vars: map[string]Val{}, spec: spec, nextRef0: e.nextRef0}
	for _, c := range spec.Assumes {
		v := env.eval(c.E)
		e.ctx.assume(v.T)
	}
	for i, c := range spec.Claims {
		v := env.eval(c.E)
		e.oblige(fr, st, fmt.Sprintf("lemma:%d", i+1), "lemma: "+c.Src, 0, v.T)
	}
	res.Obls = e.ctx.obls
	res.SpecErrs = e.specErrors
	res.Used = e.usedSpecs
	for k := range e.assumed {
		res.Assumed = append(res.Assumed, k)
	}
	sort.Strings(res.Assumed)
	return
}

// lemmaTerm evaluates a definitional axiom so that it holds for every heap:
// the element and field heaps it reads (directly or through the `reads`
// clause of a specification function) are replaced by bound variables.
func (e *Exec) lemmaTerm(l *Lemma, st *State) string {
	mk := func(s *State) string {
		env := &SpecEnv{ex: e, st: s, old: s, vars: map[string]Val{}, spec: &FuncSpec{Pkg: l.Pkg}, nextRef0: e.nextRef0}
		return env.eval(l.E).T
	}
	mk(st) // registers the heaps the axiom mentions
	s2 := st.clone()
	names := make([]string, 0, len(e.heapInfos))
	for name, hi := range e.heapInfos {
		if hi.kind == 'E' || hi.kind == 'H' {
			names = append(names, name)
		}
	}
	sort.Strings(names)
	ph := map[string]string{}
	for i, name := range names {
		ph[name] = fmt.Sprintf("hq!%d", i)
		s2.heaps[name] = ph[name]
	}
	t := mk(s2)
	var bind []string
	for _, name := range names {
		if regexp.MustCompile(regexp.QuoteMeta(ph[name]) + `[ )]`).MatchString(t + " ") {
			bind = append(bind, fmt.Sprintf("(%s %s)", ph[name], e.heapInfos[name].sort))
		}
	}
	if len(bind) == 0 {
		return t
	}
	return fmt.Sprintf("(forall (%s) %s)", strings.Join(bind, " "), t)
}
