package tokenizer

// Replay harness for C17, tokenizer part (injected with `go test -overlay`).
// Bounded witness search: token offsets must reproduce the token text from
// the original string, in increasing non-overlapping order, covering every
// non-space byte.

import (
	"fmt"
	"testing"
	"unicode"
	"unicode/utf8"
)

func TestVerifReplayC17(t *testing.T) {
	inputs := []string{"", " ", "a", "hello world", "a,b", "ab\xffcd e", "\xff", "x\xc3", "\xe4\xb8\x96\xe7\x95\x8c ok", "a\xf0\x9f\x98\x80b", "...", " a  b ", "\xc0\xaf", "ab\xed\xa0\x80cd", "tab\tsep\nline"}
	fails := 0
	for _, s := range inputs {
		toks := Tokenize(s)
		covered := make([]bool, len(s))
		prevEnd := 0
		bad := ""
		for j, tk := range toks {
			if tk.Offset < 0 || tk.Offset+len(tk.Text) > len(s) || s[tk.Offset:tk.Offset+len(tk.Text)] != tk.Text {
				bad = fmt.Sprintf("token %d (%q at %d) does not reproduce the text", j, tk.Text, tk.Offset)
				break
			}
			if tk.Offset < prevEnd {
				bad = fmt.Sprintf("token %d at %d overlaps the previous token ending at %d", j, tk.Offset, prevEnd)
				break
			}
			prevEnd = tk.Offset + len(tk.Text)
			for p := tk.Offset; p < prevEnd; p++ {
				covered[p] = true
			}
		}
		if bad == "" {
			for p := 0; p < len(s); {
				r, size := utf8.DecodeRuneInString(s[p:])
				if !unicode.IsSpace(r) && !covered[p] {
					bad = fmt.Sprintf("non-space byte at %d is not covered by a token", p)
					break
				}
				p += size
			}
		}
		if bad != "" {
			fails++
			fmt.Printf("REPLAY-FAIL C17 Tokenize(%q): %s\n", s, bad)
		}
	}
	if fails > 0 {
		t.Fatalf("%d failing inputs", fails)
	}
	fmt.Println("REPLAY-DONE C17 no failing input in the pool")
}
