package backend

// Replay harness for C19 (worker pool of the identify_license tool): runs
// ClassifyLicenses many times with as many tasks as files. On a tree where a
// worker can still send on `task` after the closer goroutine may have closed it
// (wg.Done() before `task <- true`) this panics with "send on closed channel"
// within a few hundred rounds on a multi-core machine. Injected with
// `go test -overlay`; never part of /repo.

import (
	"fmt"
	"io"
	"log"
	"os"
	"path/filepath"
	"testing"

	classifier "github.com/google/licenseclassifier/v2"
)

func TestVerifReplayC19Pool(t *testing.T) {
	log.SetOutput(io.Discard)
	defer log.SetOutput(os.Stderr)
	dir := t.TempDir()
	var files []string
	for i := 0; i < 16; i++ {
		f := filepath.Join(dir, fmt.Sprintf("f%d.txt", i))
		if err := os.WriteFile(f, []byte("some words that match nothing at all\n"), 0o644); err != nil {
			t.Fatal(err)
		}
		files = append(files, f)
	}
	c := classifier.NewClassifier(0.8)
	c.AddContent("License", "X", "x.txt", []byte("permission is hereby granted free of charge to any person obtaining a copy"))
	for round := 0; round < 3000; round++ {
		b := &ClassifierBackend{classifier: c}
		if errs := b.ClassifyLicenses(16, files, false); len(errs) != 0 {
			t.Fatal(errs)
		}
		if got := len(b.GetResults()); got != 0 {
			t.Fatalf("round %d: %d results for files without a license", round, got)
		}
	}
}
