package classifier

// Replay harness for C12 (injected with `go test -overlay`; bounded witness
// search over a few directory trees and spellings of the directory path).

import (
	"fmt"
	"os"
	"path/filepath"
	"sort"
	"testing"
)

func TestVerifReplayC12(t *testing.T) {
	fails := 0
	root, err := os.MkdirTemp("", "verif-c12-")
	if err != nil {
		t.Skip(err)
	}
	defer os.RemoveAll(root)
	lic := "Permission is hereby granted, free of charge, to any person obtaining a copy of this software and associated documentation files"
	trees := map[string]map[string]string{
		"proper":  {"License/MIT/license.txt": lic, "Header/MIT/header.txt": lic + " header"},
		"shallow": {"License/stray.txt": lic, "top.txt": lic, "License/MIT/license.txt": lic},
		"deep":    {"License/MIT/a/b/deep.txt": lic, "License/MIT/license.txt": lic},
		"suffix":  {"License/MIT/license.md": lic, "License/MIT/notxt": lic, "License/MIT/license.txt": lic},
		"empty":   {},
	}
	for tname, files := range trees {
		dir := filepath.Join(root, tname)
		os.MkdirAll(dir, 0o755)
		for rel, content := range files {
			p := filepath.Join(dir, rel)
			os.MkdirAll(filepath.Dir(p), 0o755)
			os.WriteFile(p, []byte(content), 0o644)
		}
		// expected corpus: files at depth >= 3 ending in txt
		var want []string
		for rel := range files {
			segs := splitPath(rel)
			if len(segs) >= 3 && len(rel) >= 3 && rel[len(rel)-3:] == "txt" {
				want = append(want, segs[0]+"/"+segs[1]+"/"+segs[2])
			}
		}
		sort.Strings(want)
		cwd, _ := os.Getwd()
		spellings := map[string]func() string{
			"plain":    func() string { return dir },
			"trailing": func() string { return dir + string(os.PathSeparator) },
			"dot":      func() string { os.Chdir(dir); return "." },
			"dotslash": func() string { os.Chdir(filepath.Dir(dir)); return "./" + tname },
		}
		for sname, mk := range spellings {
			func() {
				d := mk()
				defer os.Chdir(cwd)
				c := NewClassifier(0.8)
				defer func() {
					if r := recover(); r != nil {
						fails++
						fmt.Printf("REPLAY-FAIL C12 panic %q in LoadLicenses(%q) tree=%s spelling=%s\n", fmt.Sprint(r), d, tname, sname)
					}
				}()
				if err := c.LoadLicenses(d); err != nil {
					return
				}
				var got []string
				for k := range c.docs {
					got = append(got, k)
				}
				sort.Strings(got)
				if fmt.Sprint(got) != fmt.Sprint(want) {
					fails++
					fmt.Printf("REPLAY-FAIL C12 corpus after LoadLicenses(%q) tree=%s spelling=%s is %v, expected %v\n", d, tname, sname, got, want)
				}
			}()
		}
	}
	if fails > 0 {
		t.Fatalf("%d failing inputs", fails)
	}
	fmt.Println("REPLAY-DONE C12 no failing input in the pool")
}

func splitPath(p string) []string {
	var out []string
	cur := ""
	for _, r := range p {
		if r == '/' {
			out = append(out, cur)
			cur = ""
		} else {
			cur += string(r)
		}
	}
	return append(out, cur)
}
