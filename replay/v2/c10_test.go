package classifier

// Replay harness for C10 (injected into package classifier with
// `go test -overlay`; it is not part of the repository). It is a bounded
// witness search: it never decides the property, it only tries to attach a
// concrete failing input to an obligation the verifier has rejected.

import (
	"bytes"
	"fmt"
	"strings"
	"testing"
)

func verifReplayInputs() []string {
	lic := "Permission is hereby granted, free of charge, to any person obtaining a copy of this software and associated documentation files (the \"Software\"), to deal in the Software without restriction, including without limitation the rights to use, copy, modify, merge, publish, distribute, sublicense, and/or sell copies of the Software."
	words := strings.Fields(lic)
	edited := strings.Join(append(append([]string{}, words[:10]...), words[12:]...), " ")
	return []string{
		"", " ", "\n", "\n\n\n", "\xff", "\xff\xfe\xfd", "\x00", "a", "a-\nb", "-\n", "a-\n", "a-\n\n\nb c", "&amp;", "&#x;", "(", "1.", "1.2.3", "a)", "ii.",
		"copyright 2020 foo", "Copyright (c) 2020 Foo\n", "\nCopyright 2020 x\n", "2020-01-02",
		lic, "\n" + lic, lic + "\n" + lic, edited, "zzz " + lic + " qqq", strings.Repeat("x ", 3000), strings.Repeat("-\n", 2000),
		strings.Repeat("\xe4\xb8\x96", 700), strings.ToUpper(lic), strings.Repeat(" ", 1021) + "\xe4\xb8\x96 world " + lic,
		"the the the the the the the the the the", "software " + strings.Repeat("software ", 50),
	}
}

func verifReplayCorpora() map[string][][2]string {
	lic := verifReplayInputs()[23]
	return map[string][][2]string{
		"empty":    nil,
		"one":      {{"MIT", lic}},
		"emptydoc": {{"Empty", ""}},
		"mixed":    {{"MIT", lic}, {"Empty", ""}, {"Short", "the software"}, {"Dup", lic}, {"Notice", "Copyright 2020 someone"}},
	}
}

func TestVerifReplayC10(t *testing.T) {
	fails := 0
	try := func(desc string, f func()) {
		defer func() {
			if r := recover(); r != nil {
				fails++
				fmt.Printf("REPLAY-FAIL C10 panic %q in %s\n", fmt.Sprint(r), desc)
			}
		}()
		f()
	}
	for _, th := range []float64{0, 0.3, 0.5, 0.8, 1} {
		for cname, docs := range verifReplayCorpora() {
			c := NewClassifier(th)
			for _, d := range docs {
				d := d
				try(fmt.Sprintf("AddContent(threshold=%v corpus=%s name=%s)", th, cname, d[0]), func() {
					c.AddContent("License", d[0], "license.txt", []byte(d[1]))
				})
			}
			for i, in := range verifReplayInputs() {
				in := in
				desc := fmt.Sprintf("threshold=%v corpus=%s input#%d=%q", th, cname, i, clip(in))
				try("Match("+desc+")", func() { c.Match([]byte(in)) })
				try("MatchFrom("+desc+")", func() { c.MatchFrom(bytes.NewReader([]byte(in))) })
				try("Normalize("+desc+")", func() { c.Normalize([]byte(in)) })
			}
		}
	}
	if fails > 0 {
		t.Fatalf("%d failing inputs", fails)
	}
	fmt.Println("REPLAY-DONE C10 no failing input in the pool")
}

func clip(s string) string {
	if len(s) > 60 {
		return s[:60] + "..."
	}
	return s
}
