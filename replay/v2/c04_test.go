package classifier

// Replay harness for C04 (injected with `go test -overlay`): repeated Match of
// the same bytes on classifiers whose corpus contains documents with identical
// text must give identical Results (bounded witness search).

import (
	"fmt"
	"reflect"
	"strings"
	"testing"
)

func TestVerifReplayC04(t *testing.T) {
	lic, inputs := verifC04Texts()
	fails := 0
	build := func(order []int) *Classifier {
		c := NewClassifier(0.8)
		names := []string{"MIT", "Expat", "X11-like", "Zeta"}
		for _, k := range order {
			c.AddContent("License", names[k], "license.txt", []byte(lic))
		}
		return c
	}
	c := build([]int{0, 1, 2, 3})
	for i, in := range inputs {
		first := c.Match([]byte(in))
		for round := 0; round < 40; round++ {
			got := c.Match([]byte(in))
			if !reflect.DeepEqual(got, first) {
				fails++
				fmt.Printf("REPLAY-FAIL C04 Match of input#%d on the same classifier gives %s then %s\n", i, names(first), names(got))
				break
			}
		}
		// insertion order of the corpus must not matter either
		for _, order := range [][]int{{3, 2, 1, 0}, {1, 3, 0, 2}} {
			got := build(order).Match([]byte(in))
			if !reflect.DeepEqual(got, first) {
				fails++
				fmt.Printf("REPLAY-FAIL C04 Match of input#%d depends on corpus insertion order: %s vs %s\n", i, names(first), names(got))
				break
			}
		}
		b := []byte(in)
		cp := append([]byte(nil), b...)
		c.Match(b)
		c.Normalize(b)
		if !reflect.DeepEqual(b, cp) {
			fails++
			fmt.Printf("REPLAY-FAIL C04 input#%d was modified by Match/Normalize\n", i)
		}
	}
	if fails > 0 {
		t.Fatalf("%d failing inputs", fails)
	}
	fmt.Println("REPLAY-DONE C04 no failing input in the pool")
}

func names(r Results) string {
	s := "["
	for _, m := range r.Matches {
		s += m.Name + " "
	}
	return s + "]"
}

func verifC04Texts() (string, []string) {
	lic := "Permission is hereby granted, free of charge, to any person obtaining a copy of this software and associated documentation files (the \"Software\"), to deal in the Software without restriction, including without limitation the rights to use, copy, modify, merge, publish, distribute, sublicense, and/or sell copies of the Software, and to permit persons to whom the Software is furnished to do so, subject to the following conditions: The above copyright notice and this permission notice shall be included in all copies or substantial portions of the Software. THE SOFTWARE IS PROVIDED \"AS IS\", WITHOUT WARRANTY OF ANY KIND, EXPRESS OR IMPLIED, INCLUDING BUT NOT LIMITED TO THE WARRANTIES OF MERCHANTABILITY, FITNESS FOR A PARTICULAR PURPOSE AND NONINFRINGEMENT."
	w := strings.Fields(lic)
	var inputs []string
	// edits in one and in two places, deletions and insertions
	for _, pos := range [][]int{{10}, {10, 60}, {5, 40, 80}, {30, 31, 32, 90}} {
		v := append([]string{}, w...)
		for _, p := range pos {
			v[p] = "zebra"
		}
		inputs = append(inputs, strings.Join(v, " "))
	}
	inputs = append(inputs, strings.Join(append(append([]string{}, w[:20]...), w[25:]...), " "))
	inputs = append(inputs, "prefix words here "+lic+" and a suffix")
	inputs = append(inputs, lic)
	return lic, inputs
}
