package classifier

// Replay harness for C06, clause 3 (injected with `go test -overlay`).
// Bounded witness search: a copyright notice inserted as a line of its own
// anywhere in a text that matches a corpus license must be reported as a
// Copyright match on exactly its line.

import (
	"fmt"
	"os"
	"strings"
	"testing"
)

func TestVerifReplayC06(t *testing.T) {
	b, err := os.ReadFile("assets/License/MIT/a.txt")
	if err != nil {
		t.Skip("corpus asset not available: " + err.Error())
	}
	c := NewClassifier(0.8)
	c.AddContent("License", "MIT", "a.txt", b)
	lines := strings.Split(strings.TrimRight(string(b), "\n"), "\n")
	notices := []string{"Copyright 2020 Foo Inc.", "Copyright (c) 1999-2004 Jane Doe"}
	fails := 0
	for _, notice := range notices {
		for at := 0; at <= len(lines); at++ {
			var in []string
			in = append(in, lines[:at]...)
			in = append(in, notice)
			in = append(in, lines[at:]...)
			r := c.Match([]byte(strings.Join(in, "\n")))
			found := false
			for _, m := range r.Matches {
				if m.MatchType == "Copyright" && m.StartLine == at+1 && m.EndLine == at+1 {
					found = true
				}
			}
			if !found {
				fails++
				if fails <= 6 {
					var got []string
					for _, m := range r.Matches {
						got = append(got, fmt.Sprintf("%s/%s lines %d-%d", m.MatchType, m.Name, m.StartLine, m.EndLine))
					}
					fmt.Printf("REPLAY-FAIL C06 notice %q inserted as line %d of the MIT text is not reported as a Copyright match on that line; matches: %v\n", notice, at+1, got)
				}
			}
		}
	}
	if fails > 0 {
		t.Fatalf("%d failing inputs", fails)
	}
	fmt.Println("REPLAY-DONE C06 no failing input in the pool")
}
