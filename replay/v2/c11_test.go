package classifier

// Replay harness for C11, clause 1 (injected with `go test -overlay`).
// Bounded witness search: the k-th line of Normalize(in) must hold exactly
// the words that the (non-normalising) tokenisation attributes to line k.

import (
	"bytes"
	"fmt"
	"strings"
	"testing"
)

func TestVerifReplayC11(t *testing.T) {
	inputs := []string{
		"foo bar\nbaz", "\nfoo bar\nbaz", "\n\nfoo", "foo\n\n\nbar",
		"Copyright 2020 Foo Inc.\nfoo bar\nbaz", "foo\nCopyright 2020 Foo Inc.\nbar",
		"x\nCopyright 2020 Foo-\nbar baz\nq", "Copyright 2020 Foo-\nbar baz\nq", "a-\nb c\nd", "a-\n\nb",
		"one", "\n", "", "  lead\n  trail  \n",
	}
	fails := 0
	for _, in := range inputs {
		c := NewClassifier(0.8)
		doc, err := tokenizeStream(bytes.NewReader([]byte(in)), false, c.dict, true)
		if err != nil {
			continue
		}
		want := map[int][]string{}
		maxLine := 0
		for _, tk := range doc.Tokens {
			w := c.dict.getWord(tk.ID)
			if w == eol {
				continue
			}
			want[tk.Line] = append(want[tk.Line], w)
			if tk.Line > maxLine {
				maxLine = tk.Line
			}
		}
		out := string(c.Normalize([]byte(in)))
		lines := strings.Split(out, "\n")
		bad := ""
		for k := 1; k <= maxLine || k <= len(lines); k++ {
			var got []string
			if k <= len(lines) {
				got = strings.Fields(lines[k-1])
			}
			if fmt.Sprint(got) != fmt.Sprint(want[k]) {
				bad = fmt.Sprintf("line %d of the output holds %q but Match attributes %q to line %d", k, got, want[k], k)
				break
			}
		}
		if bad != "" {
			fails++
			fmt.Printf("REPLAY-FAIL C11 Normalize(%q) = %q: %s\n", in, out, bad)
		}
	}
	if fails > 0 {
		t.Fatalf("%d failing inputs", fails)
	}
	fmt.Println("REPLAY-DONE C11 no failing input in the pool")
}
