package classifier

// Replay harness for C08 (injected with `go test -overlay`). Bounded witness
// search: (1) tokenization must not depend on how many leading spaces shift
// the content across the 1024-byte read buffer - in particular a truncated
// multi-byte sequence at the very end of the stream must not be completed by
// bytes left in the buffer from an earlier refill; (2) MatchFrom over a
// fragmenting reader equals Match.

import (
	"bytes"
	"fmt"
	"reflect"
	"strings"
	"testing"
	"testing/iotest"
)

func TestVerifReplayC08(t *testing.T) {
	c := NewClassifier(0.8)
	c.AddContent("License", "X", "x.txt", []byte("permission is hereby granted free of charge to any person obtaining a copy of this software"))
	fails := 0
	bodies := []string{
		strings.Repeat("é ", 400) + "word\xc3",
		strings.Repeat("© 2001 ", 200) + "permission is hereby granted free of charge to any person obtaining a copy of this software\xe2\x82",
		strings.Repeat("x ", 600) + "é tail\xf0\x9f",
	}
	for bi, body := range bodies {
		var ref []string
		for pad := 0; pad <= 2*1024+8; pad++ {
			in := strings.Repeat(" ", pad) + body
			f := strings.Fields(string(c.Normalize([]byte(in))))
			if pad == 0 {
				ref = f
				continue
			}
			if !reflect.DeepEqual(f, ref) {
				fails++
				if fails <= 6 {
					fmt.Printf("REPLAY-FAIL C08 body %d: %d leading spaces change the words: last word %q instead of %q\n", bi, pad, f[len(f)-1], ref[len(ref)-1])
				}
			}
		}
		in := []byte(body)
		want := c.Match(in)
		for name, r := range map[string]func() (Results, error){
			"one-byte": func() (Results, error) { return c.MatchFrom(iotest.OneByteReader(bytes.NewReader(in))) },
			"data+EOF": func() (Results, error) { return c.MatchFrom(iotest.DataErrReader(bytes.NewReader(in))) },
			"half":     func() (Results, error) { return c.MatchFrom(iotest.HalfReader(bytes.NewReader(in))) },
		} {
			got, err := r()
			if err != nil || !reflect.DeepEqual(got, want) {
				fails++
				fmt.Printf("REPLAY-FAIL C08 body %d reader %s: MatchFrom = %+v, %v; Match = %+v\n", bi, name, got, err, want)
			}
		}
	}
	if fails > 0 {
		t.Fatalf("%d failing inputs", fails)
	}
	fmt.Println("REPLAY-DONE C08 no failing input in the pool")
}
