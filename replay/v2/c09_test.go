package classifier

// Replay harness for C09 (injected with `go test -overlay -race`): many
// goroutines match against one shared classifier; the race detector reports
// any unsynchronised write to shared memory. Bounded witness search.

import (
	"fmt"
	"reflect"
	"strings"
	"sync"
	"testing"
)

func verifC09Texts() (string, []string) {
	lic := "Permission is hereby granted, free of charge, to any person obtaining a copy of this software and associated documentation files (the \"Software\"), to deal in the Software without restriction, including without limitation the rights to use, copy, modify, merge, publish, distribute, sublicense, and/or sell copies of the Software, and to permit persons to whom the Software is furnished to do so, subject to the following conditions: The above copyright notice and this permission notice shall be included in all copies or substantial portions of the Software. THE SOFTWARE IS PROVIDED \"AS IS\", WITHOUT WARRANTY OF ANY KIND, EXPRESS OR IMPLIED, INCLUDING BUT NOT LIMITED TO THE WARRANTIES OF MERCHANTABILITY, FITNESS FOR A PARTICULAR PURPOSE AND NONINFRINGEMENT."
	w := strings.Fields(lic)
	var inputs []string
	// edits in one and in two places, deletions and insertions
	for _, pos := range [][]int{{10}, {10, 60}, {5, 40, 80}, {30, 31, 32, 90}} {
		v := append([]string{}, w...)
		for _, p := range pos {
			v[p] = "zebra"
		}
		inputs = append(inputs, strings.Join(v, " "))
	}
	inputs = append(inputs, strings.Join(append(append([]string{}, w[:20]...), w[25:]...), " "))
	inputs = append(inputs, "prefix words here "+lic+" and a suffix")
	inputs = append(inputs, lic)
	return lic, inputs
}

func TestVerifReplayC09(t *testing.T) {
	lic, inputs := verifC09Texts()
	c := NewClassifier(0.7)
	c.AddContent("License", "MIT", "license.txt", []byte(lic))
	c.AddContent("License", "MIT2", "license.txt", []byte(lic+" one more sentence here"))
	want := make([]Results, len(inputs))
	for i, in := range inputs {
		want[i] = c.Match([]byte(in))
	}
	var wg sync.WaitGroup
	var mu sync.Mutex
	fails := 0
	for g := 0; g < 16; g++ {
		wg.Add(1)
		go func(g int) {
			defer wg.Done()
			for round := 0; round < 6; round++ {
				for i, in := range inputs {
					got := c.Match([]byte(in))
					if !reflect.DeepEqual(got, want[i]) {
						mu.Lock()
						fails++
						fmt.Printf("REPLAY-FAIL C09 concurrent Match of input#%d differs from the sequential result\n", i)
						mu.Unlock()
					}
				}
			}
		}(g)
	}
	wg.Wait()
	if fails > 0 {
		t.Fatalf("%d differing results", fails)
	}
	fmt.Println("REPLAY-DONE C09 no difference (data races, if any, are reported by the race detector above)")
}
