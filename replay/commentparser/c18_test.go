package commentparser

// Replay harness for C18 (injected with `go test -overlay`). Bounded witness
// search. Oracle: lexing is compositional on complete lexemes - the comments
// of A+B, for complete lexemes A and B (a string literal, a multi-line
// comment, a single-line comment with its newline, or plain code), are the
// comments of A followed by the comments of B. A lexer that passes over the
// rune following a lexeme without examining it violates this: a comment that
// starts right after a string or comment is lost, or text inside a string
// that follows a comment is reported as a comment.

import (
	"fmt"
	"testing"

	"github.com/google/licenseclassifier/commentparser/language"
)

func texts(cs Comments) []string {
	var out []string
	for _, c := range cs {
		out = append(out, c.Text)
	}
	return out
}

func TestVerifReplayC18(t *testing.T) {
	type langCase struct {
		lang    language.Language
		lexemes []string
	}
	cases := []langCase{
		{language.C, []string{"/*a*/", "\"s\"", "'c'", "//x\n", "y ", "\"http://u\"", "/* b */", "/**/"}},
		{language.Swift, []string{"/*a*/", "/**/", "/* a /**/ b */", "/* /* */*/", "//x\n", "y "}},
		{language.Go, []string{"/*a*/", "\"s\"", "`raw`", "//x\n", "y ", "\"/*no*/\""}},
		{language.Python, []string{"#a\n", "'s'", "\"t\"", "x ", "'#no'"}},
		{language.Shell, []string{"#a\n", "'s'", "\"t\"", "x "}},
		{language.Haskell, []string{"{-a-}", "--x\n", "\"s\"", "y "}},
		{language.HTML, []string{"<!--a-->", "<p>", "<!-- b -->"}},
	}
	fails := 0
	for _, lc := range cases {
		for _, a := range lc.lexemes {
			for _, b := range lc.lexemes {
				in := a + b
				got := texts(Parse([]byte(in), lc.lang))
				want := append(texts(Parse([]byte(a), lc.lang)), texts(Parse([]byte(b), lc.lang))...)
				if fmt.Sprint(got) != fmt.Sprint(want) {
					fails++
					if fails <= 12 {
						fmt.Printf("REPLAY-FAIL C18 Parse(%q, lang %v) = %q, but its two lexemes alone give %q\n", in, lc.lang, got, want)
					}
				}
			}
		}
	}
	// an empty multi-line comment is a complete lexeme: it is reported (with
	// empty text) and does not swallow what follows
	for _, ec := range []struct {
		lang language.Language
		in   string
		want []string
	}{
		{language.C, "/**/ int x; /* c */\n", []string{"", " c "}},
		{language.C, "/**/\nint y;\n", []string{""}},
		{language.Swift, "/* /* */*/ x /* d */", []string{" /* */", " d "}},
	} {
		got := texts(Parse([]byte(ec.in), ec.lang))
		if fmt.Sprintf("%q", got) != fmt.Sprintf("%q", ec.want) {
			fails++
			fmt.Printf("REPLAY-FAIL C18 Parse(%q, lang %v) = %q, a straightforward lexer finds %q\n", ec.in, ec.lang, got, ec.want)
		}
	}
	if fails > 0 {
		t.Fatalf("%d failing inputs", fails)
	}
	fmt.Println("REPLAY-DONE C18 no failing input in the pool")
}
