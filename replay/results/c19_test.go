package results

// Replay harness for C19 (injected with `go test -overlay`). Bounded witness
// search: the tool's goroutines append results in an order that depends on
// scheduling (per file the order is fixed, files interleave arbitrarily). The
// printed output must not depend on it: sorting any two such arrival orders of
// the same results must give the same sequence.

import (
	"fmt"
	"sort"
	"testing"
)

func render(lt LicenseTypes) string {
	s := ""
	for _, r := range lt {
		s += fmt.Sprintf("%s/%s/%s/%s/%v/%d-%d ", r.Filename, r.MatchType, r.Name, r.Variant, r.Confidence, r.StartLine, r.EndLine)
	}
	return s
}

func TestVerifReplayC19(t *testing.T) {
	// results of file a.txt (two matches that tie on confidence and end line,
	// as two names for one text do) and of n other files
	fails := 0
	for _, n := range []int{3, 14, 30} {
		a1 := &LicenseType{Filename: "a.txt", MatchType: "License", Name: "MIT", Variant: "a.txt", Confidence: 1, StartLine: 1, EndLine: 20}
		a2 := &LicenseType{Filename: "a.txt", MatchType: "License", Name: "Expat", Variant: "b.txt", Confidence: 1, StartLine: 1, EndLine: 20}
		var others []*LicenseType
		for i := 0; i < n; i++ {
			others = append(others, &LicenseType{Filename: fmt.Sprintf("f%02d.txt", i), MatchType: "License", Name: "X", Confidence: 1, StartLine: 1, EndLine: 5})
		}
		outs := map[string]string{}
		for pos := 0; pos <= n; pos++ {
			// a1 first, a2 after `pos` results of other files: every such order is a
			// possible arrival order with two or more tasks
			var lt LicenseTypes
			lt = append(lt, a1)
			lt = append(lt, others[:pos]...)
			lt = append(lt, a2)
			lt = append(lt, others[pos:]...)
			sort.Sort(lt)
			outs[render(lt)] = fmt.Sprintf("a2 arriving after %d other results", pos)
		}
		if len(outs) > 1 {
			fails++
			fmt.Printf("REPLAY-FAIL C19 %d results of other files: sorting different arrival orders of the same results gives %d different printed orders (e.g. %v)\n", n, len(outs), values(outs))
		}
	}
	if fails > 0 {
		t.Fatalf("%d failing inputs", fails)
	}
	fmt.Println("REPLAY-DONE C19 no failing input in the pool")
}

func values(m map[string]string) []string {
	var out []string
	for _, v := range m {
		out = append(out, v)
	}
	sort.Strings(out)
	return out
}
