package searchset

// Replay harness for C17, candidate-range part (injected with `go test
// -overlay`). Bounded witness search over pseudo-random low-vocabulary text
// pairs: every candidate returned by FindPotentialMatches must be non-empty,
// in target order, inside the target's tokens, and convert to a byte range
// with start <= end inside the target text.

import (
	"fmt"
	"math/rand"
	"strings"
	"testing"
)

func verifGenText(r *rand.Rand, vocab []string, n int) string {
	var w []string
	for i := 0; i < n; i++ {
		w = append(w, vocab[r.Intn(len(vocab))])
	}
	return strings.Join(w, " ")
}

func verifCheckPair(src, tgt string, gran int) (msg string) {
	defer func() {
		if r := recover(); r != nil {
			msg = fmt.Sprintf("panic %v", r)
		}
	}()
	s := New(src, gran)
	t := New(tgt, gran)
	for gi, g := range FindPotentialMatches(s, t) {
		if len(g) == 0 {
			return fmt.Sprintf("candidate %d is empty", gi)
		}
		for k, m := range g {
			if m == nil || m.TargetStart < 0 || m.TargetStart >= m.TargetEnd || m.TargetEnd > len(t.Tokens) {
				return fmt.Sprintf("candidate %d range %d has target [%d,%d) outside 0..%d", gi, k, m.TargetStart, m.TargetEnd, len(t.Tokens))
			}
			if k > 0 && g[k-1].TargetStart > m.TargetStart {
				return fmt.Sprintf("candidate %d is not in target order at %d", gi, k)
			}
		}
		start, end := g.TargetRange(t)
		if start < 0 || start > end || end > len(tgt) {
			return fmt.Sprintf("candidate %d converts to byte range [%d:%d] of a %d-byte text", gi, start, end, len(tgt))
		}
	}
	return ""
}

func TestVerifReplayC17(t *testing.T) {
	fails := 0
	r := rand.New(rand.NewSource(1))
	vocabs := [][]string{{"a", "b"}, {"a", "b", "c"}, {"the", "of", "and", "to", "in"}, {"x"}, {"a", "b", "c", "d", "e", "f", "g", "h"}, {"a", ",", "b", "."}}
	for iter := 0; iter < 6000 && fails < 5; iter++ {
		v := vocabs[iter%len(vocabs)]
		src := verifGenText(r, v, 2+r.Intn(25))
		var tgt string
		switch r.Intn(4) {
		case 0:
			tgt = verifGenText(r, v, 2+r.Intn(60))
		case 1:
			tgt = verifGenText(r, v, r.Intn(10)) + " " + src + " " + verifGenText(r, v, r.Intn(10))
		case 2:
			tgt = src + " " + src + " " + verifGenText(r, v, r.Intn(8)) + " " + src
		default:
			w := strings.Fields(src)
			tgt = strings.Join(w[len(w)/2:], " ") + " " + strings.Join(w[:len(w)/2+1], " ") + " " + verifGenText(r, v, r.Intn(20))
		}
		for _, gran := range []int{1, 2, 3} {
			if msg := verifCheckPair(src, tgt, gran); msg != "" {
				fails++
				fmt.Printf("REPLAY-FAIL C17 FindPotentialMatches(New(%q,%d), New(%q,%d)): %s\n", src, gran, tgt, gran, msg)
				break
			}
		}
	}
	if fails > 0 {
		t.Fatalf("%d failing inputs", fails)
	}
	fmt.Println("REPLAY-DONE C17 no failing input in the pool")
}
