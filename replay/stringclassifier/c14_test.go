package stringclassifier

// Replay harness for C14 (injected with `go test -overlay -race`): concurrent
// MultipleMatch / NearestMatch / AddValue on one classifier populated via
// AddValue (search sets are built lazily on first use). The race detector
// reports unsynchronised accesses; results are compared with sequential ones.

import (
	"fmt"
	"reflect"
	"sync"
	"testing"
)

func TestVerifReplayC14(t *testing.T) {
	texts := map[string]string{
		"mit":  "permission is hereby granted free of charge to any person obtaining a copy of this software",
		"bsd":  "redistribution and use in source and binary forms with or without modification are permitted",
		"isc":  "permission to use copy modify and distribute this software for any purpose with or without fee",
		"zlib": "this software is provided as is without any express or implied warranty",
	}
	unknowns := []string{
		"header " + texts["mit"] + " trailer",
		texts["bsd"] + " and also " + texts["isc"],
		"nothing to see here at all",
		texts["zlib"],
	}
	mk := func() *Classifier {
		c := New(DefaultConfidenceThreshold, FlattenWhitespace)
		for k, v := range texts {
			c.AddValue(k, v)
		}
		return c
	}
	ref := mk()
	var want []Matches
	for _, u := range unknowns {
		want = append(want, ref.MultipleMatch(u))
	}
	c := mk()
	var wg sync.WaitGroup
	var mu sync.Mutex
	fails := 0
	for g := 0; g < 8; g++ {
		wg.Add(1)
		go func(g int) {
			defer wg.Done()
			for round := 0; round < 3; round++ {
				for i, u := range unknowns {
					got := c.MultipleMatch(u)
					if !reflect.DeepEqual(got, want[i]) {
						mu.Lock()
						fails++
						fmt.Printf("REPLAY-FAIL C14 concurrent MultipleMatch(#%d) differs from sequential result\n", i)
						mu.Unlock()
					}
					c.NearestMatch(u)
				}
				c.AddValue(fmt.Sprintf("extra-%d-%d", g, round), fmt.Sprintf("completely unrelated text number %d %d", g, round))
			}
		}(g)
	}
	wg.Wait()
	if fails > 0 {
		t.Fatalf("%d differing results", fails)
	}
	fmt.Println("REPLAY-DONE C14 (data races, if any, are reported by the race detector above)")
}
