package stringclassifier

// Replay harness for C13 (injected with `go test -overlay`). Bounded witness
// search: registering any string never panics; every reported match has a
// confidence in (0,1] and Offset/Extent inside the normalised unknown; a
// verbatim copy of a known value is reported with confidence 1.0 at its exact
// position. Panics in spawned goroutines kill the test process; they show up
// as `panic:` lines in the output.

import (
	"fmt"
	"strings"
	"testing"
)

func TestVerifReplayC13(t *testing.T) {
	fails := 0
	values := []string{"hello world", "world", "foo (bar", "a.c", "x+y=z", "[brackets", "back\\slash", "foo \xff bar", "one two three four five six", "*", "the quick brown fox", "end", "hello ", " world", "a b "}
	for _, v := range values {
		func() {
			defer func() {
				if r := recover(); r != nil {
					fails++
					fmt.Printf("REPLAY-FAIL C13 AddValue(%q) panics: %v\n", v, r)
				}
			}()
			c := New(DefaultConfidenceThreshold, FlattenWhitespace)
			c.AddValue("k", v)
		}()
	}
	if fails > 0 {
		t.Fatalf("%d failing inputs", fails)
	}
	unknowns := []string{"hello world", "say hello world", "hello world again and again", "prefix text then the quick brown fox and more words after it", "it is the end", "end", "one two three four five six", "zzz one two three four five six zzz", "x+y=z", "see x+y=z here", "abc", "a.c", "a hello ", "say hello  x", "x a b ", "hello "}
	for _, v := range values {
		if strings.Contains(v, "\xff") || v == "*" || v == "[brackets" || v == "foo (bar" || v == "back\\slash" {
			continue
		}
		for _, u := range unknowns {
			c := New(DefaultConfidenceThreshold, FlattenWhitespace)
			if err := c.AddValue("k", v); err != nil {
				continue
			}
			norm := c.normalize(u)
			for _, m := range c.MultipleMatch(u) {
				if !(m.Confidence > 0 && m.Confidence <= 1) || m.Offset < 0 || m.Extent < 0 || m.Offset+m.Extent > len(norm) {
					fails++
					fmt.Printf("REPLAY-FAIL C13 value %q unknown %q: match %+v outside (0,1] or outside the %d-byte normalised unknown\n", v, u, *m, len(norm))
				}
			}
			// exactness is only checked for values that begin and end with a token:
			// Offset/Extent are derived from token positions and cannot include
			// leading or trailing whitespace of a value (observation, see DESIGN.md)
			if idx := strings.Index(norm, v); idx >= 0 && wordBounded(norm, idx, len(v)) && strings.TrimSpace(v) == v {
				found := false
				for _, m := range c.MultipleMatch(u) {
					if m.Confidence == 1.0 && m.Offset == idx && m.Extent == len(v) {
						found = true
					}
				}
				if !found {
					fails++
					fmt.Printf("REPLAY-FAIL C13 value %q occurs verbatim at %d in %q but MultipleMatch reports %s\n", v, idx, norm, fmtMatches(c.MultipleMatch(u)))
				}
			}
		}
	}
	if fails > 0 {
		t.Fatalf("%d failing inputs", fails)
	}
	fmt.Println("REPLAY-DONE C13 no failing input in the pool")
}

func wordBounded(s string, idx, n int) bool {
	return (idx == 0 || s[idx-1] == ' ') && (idx+n == len(s) || s[idx+n] == ' ')
}

func fmtMatches(ms Matches) string {
	s := ""
	for _, m := range ms {
		s += fmt.Sprintf("%+v ", *m)
	}
	return "[" + s + "]"
}
