#!/bin/bash
# Builds the verifier from the sources in /verif/govc, offline.
set -e
cd "$(dirname "$0")"
export GOFLAGS=-mod=mod GOPROXY=off GOSUMDB=off GOTOOLCHAIN=local
mkdir -p bin evidence replays
(cd govc && go build -o ../bin/govc .)
echo "govc built"
