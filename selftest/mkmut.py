#!/usr/bin/env python3
"""mkmut.py <name> <prop[,prop]> <expect> <file> <<< JSON list of [old,new] pairs
Creates selftest/mutants/<name>/{patch.diff,meta.json} from textual edits of /repo files."""
import json, os, subprocess, sys, tempfile, shutil
name, props, expect, relfile = sys.argv[1:5]
pairs = json.loads(sys.stdin.read(), strict=False)
src = os.path.join("/repo", relfile)
s = open(src).read()
for old, new in pairs:
    assert s.count(old) == 1, (old, s.count(old))
    s = s.replace(old, new)
d = os.path.join("/verif/selftest/mutants", name)
os.makedirs(d, exist_ok=True)
tmp = tempfile.mkdtemp()
a = os.path.join(tmp, "a", relfile); b = os.path.join(tmp, "b", relfile)
os.makedirs(os.path.dirname(a)); os.makedirs(os.path.dirname(b))
shutil.copy(src, a); open(b, "w").write(s)
r = subprocess.run(["diff", "-u", "a/" + relfile, "b/" + relfile], cwd=tmp, capture_output=True, text=True)
open(os.path.join(d, "patch.diff"), "w").write(r.stdout)
json.dump({"props": props.split(","), "expect": expect, "what": sys.argv[5] if len(sys.argv) > 5 else ""}, open(os.path.join(d, "meta.json"), "w"), indent=1)
shutil.rmtree(tmp)
print("created", d)
