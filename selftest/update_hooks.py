#!/usr/bin/env python3
"""Rewrite MANIFEST.hooks.source_commits from /repo's history: every commit
whose subject starts with "verif:" (guarded contract files), oldest first."""
import json, subprocess
m = json.load(open('/verif/MANIFEST.json'))
log = subprocess.run(['git', '-C', '/repo', 'log', '--reverse', '--format=%H %s'], capture_output=True, text=True).stdout.splitlines()
m['hooks']['source_commits'] = [l.split()[0] for l in log if l.split(' ', 1)[1].startswith('verif:')]
json.dump(m, open('/verif/MANIFEST.json', 'w'), indent=1)
print(len(m['hooks']['source_commits']), 'hook commits')
