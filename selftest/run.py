#!/usr/bin/env python3
"""Must-fail corpus for govc: applies each patch under selftest/mutants (and
seeded/) to a scratch copy of /repo and checks that the registered quick
check of the property reports a violation (or stays green for neutral
patches). Scratch copies live under /tmp and are removed."""
import json, os, shutil, subprocess, sys, tempfile, glob

V = os.path.dirname(os.path.dirname(os.path.abspath(__file__)))

def run_one(patch, prop, expect):
    scratch = tempfile.mkdtemp(prefix="govc-selftest-")
    out = tempfile.mkdtemp(prefix="govc-selftest-out-")
    try:
        subprocess.run(["rsync", "-a", "--exclude", ".git", "/repo/", scratch + "/"], check=True)
        r = subprocess.run(["patch", "-p1", "-s", "-d", scratch, "-i", patch], capture_output=True, text=True)
        if r.returncode != 0:
            return "PATCH-FAILED", r.stdout + r.stderr
        env = dict(os.environ, GOVC_REPO=scratch, GOVC_OUT=out)
        r = subprocess.run([os.path.join(V, "bin", "govc"), "check", "-prop", prop, "-tier", "quick"], capture_output=True, text=True, env=env)
        viol = [l for l in r.stdout.splitlines() if l.startswith("VIOLATION")]
        got = "violation" if (r.returncode == 1 and viol) else ("pass" if r.returncode == 0 else "error")
        return ("OK" if got == expect else "MISMATCH(" + got + ")"), r.stdout[-3000:]
    finally:
        shutil.rmtree(scratch, ignore_errors=True)
        shutil.rmtree(out, ignore_errors=True)

def main():
    only = [a for a in sys.argv[1:] if not a.startswith("--")]
    dirs = sorted(glob.glob(os.path.join(V, "selftest", "mutants", "*")))
    if "--mutants-only" not in sys.argv:
        dirs += sorted(glob.glob(os.path.join(V, "seeded", "*")))
    bad = 0
    for d in dirs:
        if not os.path.isdir(d) or not os.path.exists(os.path.join(d, "meta.json")):
            continue
        name = os.path.basename(d)
        if only and not any(o in name for o in only):
            continue
        meta = json.load(open(os.path.join(d, "meta.json")))
        patch = os.path.join(d, "patch.diff")
        props = meta.get("props") or [meta["property"]]
        expect = meta.get("expect", "violation")
        if meta.get("superseded"):
            # written against code that a later fix: commit rewrote; re-made for
            # the repaired code under the name given
            print(f"SUPERSEDED     {name} -> {meta['superseded']}", flush=True)
            continue
        for p in props:
            res, out = run_one(patch, p, expect)
            print(f"{res:14s} {name} prop={p} expect={expect}", flush=True)
            if res != "OK":
                bad += 1
                print("    " + "\n    ".join(out.splitlines()[-12:]))
    print("selftest:", "all as expected" if bad == 0 else f"{bad} mismatches")
    sys.exit(1 if bad else 0)

if __name__ == "__main__":
    main()
