#!/bin/bash
# usage: ./check.sh <property-id> quick|thorough        run the contract check
#        ./check.sh <property-id> --replay <path>        show / re-run a stored replay
set -u
cd "$(dirname "$0")"
export GOFLAGS=-mod=mod GOPROXY=off GOSUMDB=off GOTOOLCHAIN=local
export PATH="$PATH:/usr/local/go/bin:/usr/local/bin:/usr/bin"
if [ ! -x bin/govc ] || [ -n "$(find govc -name '*.go' -newer bin/govc 2>/dev/null | head -1)" ]; then
  ./setup.sh >/dev/null 2>&1 || { echo "setup failed"; exit 2; }
fi
id="$1"; shift
if [ "${1:-}" = "--replay" ]; then
  exec bin/govc replay -prop "$id" "$2"
fi
tier="${1:-${VERIF_TIER:-quick}}"
exec bin/govc check -prop "$id" -tier "$tier"
